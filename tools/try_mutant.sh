#!/bin/bash
# usage: try_mutant.sh <patch.diff> <prop> [<prop>...]   applies the patch to /repo, runs the quick checks, restores /repo
patch=$1; shift
cd /repo || exit 2
if [ -n "$(git status --porcelain --untracked-files=no)" ]; then echo "/repo has uncommitted changes"; exit 2; fi
if ! git apply "$patch" 2>/dev/null; then git apply -3 "$patch" || { echo "patch does not apply"; git checkout -q HEAD -- .; exit 3; }; fi
for p in "$@"; do (cd /verif && /verif/bin/gvc check --property "$p" --canary 2>&1 | grep -E '^FAILED|^VIOLATION|^KNOWN|^gvc' | cut -c1-${CUT:-220} | head -${HEAD:-8}); done
git checkout -q HEAD -- .
git status --porcelain --untracked-files=no
