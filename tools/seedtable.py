#!/usr/bin/env python3
"""Prints the markdown table of DESIGN.md 0.9 from /verif/seeded/*/meta.json."""
import json, os, re
rows=[]
for name in sorted(os.listdir('/verif/seeded')):
    mf=os.path.join('/verif/seeded',name,'meta.json')
    if not os.path.exists(mf): continue
    m=json.load(open(mf))
    note=m.get('needs_to_manifest','').strip().split('\n')[0]
    note=re.sub(r'^(Change|What was changed|Changed?)\s*:\s*','',note,flags=re.I)
    note=note.replace('|','/')[:150]
    res=m.get('gvc_result',{})
    caught=m.get('caught_by') or ([m['property']] if m.get('caught') else [])
    first=''
    for p in caught:
        fo=(res.get(p,{}) if isinstance(res.get(p),dict) else res).get('failed_obligations',[])
        if fo:
            first=fo[0]; break
    if not first and isinstance(res,dict) and res.get('failed_obligations'):
        first=res['failed_obligations'][0]
    ob=first.split(' [')[0].strip()[:90]
    if caught:
        r='reported by '+','.join(caught)+': `'+ob+'`'
    elif not m.get('claimed_property',True):
        r='property not claimed'
    else:
        r='**missed**'
    rows.append(f'| {name} | {note} | {r} |')
print('| seed | change (first line of the author\'s note) | result of the claimed checks |')
print('|---|---|---|')
print('\n'.join(rows))
n=len(rows); c=sum('reported by' in r for r in rows)
print(f'\n{c} of {n} are reported.')
