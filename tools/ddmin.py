#!/usr/bin/env python3
"""debug aid: greedy minimisation of the assertion set of a VC that still proves (unsat) within T seconds;
then reports, for every removed assertion, whether adding it back alone makes the proof time out"""
import sys,subprocess,time
f=sys.argv[1]; T=sys.argv[2] if len(sys.argv)>2 else '3'
solver=sys.argv[3] if len(sys.argv)>3 else 'z3-new'
lines=open(f).read().rstrip().split('\n')
head=[l for l in lines if not l.startswith('(assert') and l!='(check-sat)']
asserts=[l for l in lines[:-2] if l.startswith('(assert')]
goal=lines[-2]
def run(As):
    open('/tmp/ddm.smt2','w').write('\n'.join(head+As+[goal,'(check-sat)'])+'\n')
    if solver=='cvc5': cmd=['cvc5','--tlimit='+str(int(float(T)*1000)),'--full-saturate-quant','/tmp/ddm.smt2']
    else: cmd=[solver,'-T:'+T,'/tmp/ddm.smt2']
    out=subprocess.run(cmd,capture_output=True,text=True).stdout
    r=[l for l in out.split('\n') if l.strip() in('sat','unsat','unknown','timeout')]
    return r[0] if r else 'err'
cur=asserts[:]
# chunked removal
n=2
while len(cur)>=1:
    chunk=max(1,len(cur)//n)
    removed=False
    i=0
    while i<len(cur):
        cand=cur[:i]+cur[i+chunk:]
        if run(cand)=='unsat':
            cur=cand; removed=True
        else:
            i+=chunk
    if chunk==1 and not removed: break
    n=min(len(cur),n*2) if not removed else n
    if chunk==1: break
print('core size',len(cur))
for a in cur: print('CORE',a[:220])
rest=[a for a in asserts if a not in cur]
for a in rest:
    if 'forall' in a:
        r=run(cur+[a])
        if r!='unsat': print('POISON',r,a[:300])
