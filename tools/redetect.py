#!/usr/bin/env python3
"""Re-runs the claimed checks against every seeded change in /verif/seeded and refreshes meta.json
(gvc_result, caught, caught_by). /repo must be clean; each patch is applied and undone by try_mutant.sh."""
import json, os, re, subprocess, sys
claimed=[c['property_id'] for c in json.load(open('/verif/MANIFEST.json'))['checks']]
EXTRA={'C01':['C03'],'C02':['C03'],'C03':[],'C04':['C15'],'C07':['C08']}   # deque seeds are also run against the iterator check   # tree seeds are also run against the structural check
only=sys.argv[1:]
for name in sorted(os.listdir('/verif/seeded')):
    d=os.path.join('/verif/seeded',name)
    if not os.path.exists(os.path.join(d,'meta.json')): continue
    if only and name not in only: continue
    pid=name[:3]
    meta=json.load(open(os.path.join(d,'meta.json')))
    run=[p for p in [pid]+EXTRA.get(pid,[]) if p in claimed]
    res={}; caught_by=[]
    for p in run:
        r=subprocess.run(['/verif/tools/try_mutant.sh',os.path.join(d,'patch.diff'),p],capture_output=True,text=True,env=dict(os.environ,HEAD='200',CUT='400'))
        fails=[l for l in r.stdout.split('\n') if l.startswith('FAILED-OBLIGATION')]
        viol=[l for l in r.stdout.split('\n') if l.startswith('VIOLATION')]
        res[p]={'violation_lines':len(viol),'failed_obligations':[re.sub(r'^FAILED-OBLIGATION \S+ ','',f)[:160] for f in fails[:6]]}
        if viol: caught_by.append(p)
    meta['claimed_property']=pid in claimed
    meta['checks_run']=run
    meta['gvc_result']=res
    meta['caught']=bool(caught_by)
    meta['caught_by']=caught_by
    json.dump(meta,open(os.path.join(d,'meta.json'),'w'),indent=1)
    print(name,'caught by '+','.join(caught_by) if caught_by else ('MISSED' if run else 'no claimed check'),flush=True)
