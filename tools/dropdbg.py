#!/usr/bin/env python3
"""debug aid: drop each (large/quantified) assumption in turn and report whether the VC then proves quickly"""
import sys,subprocess
f=sys.argv[1]; T=sys.argv[2] if len(sys.argv)>2 else '5'
lines=open(f).read().rstrip().split('\n')
idx=[i for i,l in enumerate(lines[:-2]) if l.startswith('(assert') and 'forall' in l]
def run(ls):
    open('/tmp/dd.smt2','w').write('\n'.join(ls)+'\n')
    out=subprocess.run(['z3-new','-T:'+T,'/tmp/dd.smt2'],capture_output=True,text=True).stdout
    r=[l for l in out.split('\n') if l.strip() in('sat','unsat','unknown','timeout')]
    return r[0] if r else out[:60]
print('base',run(lines))
for i in idx:
    ls=lines[:i]+lines[i+1:]
    r=run(ls)
    if r=='unsat': print('DROP',i+1,len(lines[i]),lines[i][:200])
