#!/usr/bin/env python3
"""Regenerates /verif/MANIFEST.json from the table below and validates it against the schema."""
import json, subprocess, sys

CLAIMED = {
 # id: (level text, level_note, design_ref, technique)
 "C06": ("Deductive proof, for all list states and all handles, that every xlist.List method maps a well-formed list (ghost sequence of node handles, both link directions, both ends, size) to the well-formed list of the ideal sequence operation; Value is in no frame; ghost clients derive the property's sentences from the contracts alone. Proof is the right level: the property quantifies over all histories, which an inductive invariant over one step covers without a bound.",
         "Trusted: gvc VC generator and its semantic model of Go (DESIGN.md 3.3), the SMT solvers, go/types. Assumed: handles passed in are nodes of the list (the property's own precondition); allocation never fails.",
         "4.6", "contract-based deductive verification: WP/symbolic execution over the typed Go AST, contracts in //@ comments under build tag verif, obligations discharged by z3/cvc5"),
}

CLAIMED["C04"] = ("Deductive proof, for every (capacity, front, back) combination at once (the code is loop-free, so each obligation is a closed formula over symbolic buffer state), that each Deque method equals the ideal double-ended sequence operation on the abstract view, panics exactly where the property says with the state unchanged, that Grow/Shrink are view-neutral, and that freed slots hold the zero value (popped elements are not retained).",
         "Trusted: gvc and its model of slices (make/copy/append/slicing), SMT solvers. Assumed: int arithmetic does not overflow (capacities < 2^62), allocation succeeds. The composition of the per-call contracts into whole histories is the standard induction over the representation invariant wf (initial state proved by a ghost client).",
         "4.4", CLAIMED["C06"][3])

CLAIMED["C05"] = ("Deductive proof of internal/heap and xheap.Heap: percolateUp/percolateDown loop invariants (heap order with one excepted edge), heapify, Push/Pop/Peek/RemoveAt/UpdateAt re-establish the heap order for every array and every strict weak order `less` (uninterpreted), the array stays a permutation of (old items +/- the item) via a ghost bijection, Len arithmetic, min-at-root by an induction lemma, so Pop/Peek return an item no held item is less than and draining is sorted (ghost client); notifications keep a ghost key->index map exact when keys are distinct.",
         "Trusted: gvc, SMT solvers. Assumed: `less` is a strict weak order and pure (the property quantifies over such orders); callbacks affect only caller state; int arithmetic does not overflow. PriorityQueue's map coupling: see evidence not_covered_clauses until its contracts are discharged.",
         "4.5", CLAIMED["C06"][3])
CLAIMED["C15"] = ("Deductive proof of a two-state generation-stability invariant on every Deque and Heap mutator (gen never decreases; unchanged gen implies unchanged representation; a size change advances gen) plus iterator contracts over a ghost snapshot: Next panics exactly when the generation moved, otherwise yields the next snapshot element, and reports exhaustion only after the whole snapshot; a ghost client shows any mutator leaves an outstanding iterator either at its snapshot or with a stale generation.",
         "Trusted: gvc, SMT solvers. Assumed: single goroutine. Four genuine defects found by these obligations were repaired by fix: commits (known_findings.txt).",
         "4.11", CLAIMED["C06"][3])

CLAIMED["C07"] = ("Deductive proof, per call and for every source sequence, predicate/equality outcome and parameter value, of the functional contract of the iterator and stream constructors, combinators and reducers against a ghost source sequence (seq, n, pos) with exact pull accounting (laziness) and sticky end; sources of the library (Slice, Counter, Repeat, Empty) are proved to implement the source protocol that is assumed of caller-supplied iterators; loops carry inductive invariants (Filter, Compact, Chunk, Reduce/Collect, Last's ring buffer, the drain loop of Runs); iterator.Runs and stream.Runs: the items the outer Next skips belong to the previous run, runs are maximal, an inner iterator that reported its end stays ended; iterator.Equal: true iff all remaining sequences agree (a false answer comes with a witness position), for pairwise distinct iterator objects; the xslices Compact family against assumed contracts of package slices.",
         "Trusted: gvc, SMT solvers. Assumed: the source protocol for caller-supplied iterators/streams (a fixed finite sequence, sticky end, zero value with end/error); callbacks are pure. Functions not under contract are listed in the evidence under not_covered_clauses; A failed obligation of a free function is replayed on the real code (generated test evaluating the contract on candidate inputs, seeded with the solver's model); where that finds an input the VIOLATION line carries it, otherwise it ends in no-failing-input-found.",
         "4.7", CLAIMED["C06"][3])
CLAIMED["C08"] = ("Deductive proof for the in-goroutine stream combinators and reducers: on every path on which the source or a callback fails, the error returned is that very error (ghost lasterr / the callback's result), the value result is the zero value, and the wrapper's abstraction (source position minus buffered items, buffered items themselves) is unchanged for source faults, so a retry continues where it left off; the source protocol allows a fault at every call (arbitrary error, position unchanged), which covers every fault position, kind and sequence.",
         "Trusted: gvc, SMT solvers. Assumed: the faulting-source protocol; callbacks are pure functions of their arguments. Not covered: the goroutine-backed Batch, Merge, Pipe and parallel.MapStream (fault timing relative to the consumer is a schedule).",
         "4.8", CLAIMED["C06"][3])
CLAIMED["C09"] = ("Deductive proof with a typestate ghost (closes) on every stream: Next and Close require closes == 0, every reducer closes the stream it consumes exactly once on every exit path (normal, End, source error, callback error; defer semantics), and every wrapper's Close forwards exactly once to each stream it owns; no wrapper's Next closes or otherwise touches the closes count of its source (frame condition of every Next, including Runs' outer and inner streams), and every constructor stores exactly the stream it was given (ownership hand-over).",
         "Trusted: gvc, SMT solvers. Assumed: the consumer calls Close on a wrapper at most once and not concurrently with Next (the documented contract). Not covered: Merge, Batch, parallel.MapStream (owners are goroutines). A genuine defect (stream.One never closed its stream) was repaired by a fix: commit.",
         "4.9", CLAIMED["C06"][3])

CLAIMED["C12"] = ("Partial deductive proof: chans.Merge for arities 1-3 (arity 1 directly, 2 and 3 through merge2/merge3) and chans.Replicate as single-goroutine code under a sequential channel view with nondeterministic select: ghost tag sequences show the output is an interleaving of the consumed input prefixes (nothing lost, duplicated or invented, per-input order kept), and the function returns exactly when every input has been consumed and seen closed.",
         "Trusted: gvc and its sequential channel model (receive completes with a pending value or on a closed channel; select picks any arm whose channel is not nil; blocking, buffering and fairness are not modelled), SMT solvers. Not covered: arity 0 and >= 4 (reflect.Select path, cut by a reported assume), stream.Merge (goroutines), every blocking/liveness clause.",
         "4.10", CLAIMED["C06"][3])
CLAIMED["C18"] = ("Partial deductive proof: every typed xsync.Map wrapper equals the assumed sync.Map contract on every key state, verified for value types that are not interfaces and for ones that are (a stored nil interface, an absent key); Future: Fill once (panics, value untouched, on the second), Wait returns the filled value, and WaitContext is verified against an interfering environment (while it is blocked another goroutine may Fill: channel state, value and ghost value are havocked under the rely condition 'closed implies x is the filled value') - it returns the filled value exactly through the future's arm and ctx.Err() only through the Done arm; Watchable: Set publishes a fresh cell and closes exactly the replaced cell's channel, and Value is verified against an environment that may Set the watchable any number of times before each of its three atomic steps (current cell and the ghost set of published cells havocked under 'a cell never becomes nil again, published cells stay published'): the pair it returns always belongs to one published cell, and when the environment did nothing it is the current cell with an open channel (zero value before the first Set).",
         "Trusted: gvc, the sequential channel and atomic.Pointer models, assumed contracts of sync.Map/atomic.Pointer/context, and the rely conditions above (reported as havoc/assume in the evidence). Not covered: closing of a returned cell's channel by a concurrent Set (closedness is not havocked), Fill racing Fill, concurrent first calls of a Lazy; Lazy is sync.OnceValue (trusted). Two genuine defects repaired by fix: commits.",
         "4.12", CLAIMED["C06"][3])
CLAIMED["C19"] = ("Deductive proof of functional contracts of the pure helpers with loop invariants, pure callbacks as uninterpreted functions, ghost permutations and maps as (domain, value) functions: xslices All/Any/Chunk/Clear/Clone/Compact(Func)/CompactInPlace(Func)/Count(Func)/Equal(Func)/Fill/Filter(InPlace)/Group/Grow/Index(Func)/Insert/Join/LastIndex(Func)/Map/Partition/Reduce/Remove/RemoveUnordered/Repeat/Reverse/Runs/Shrink/Unique(InPlace), xsort order algebra, Search, Merge/mergeIterator.Next (heap representation: one entry per live input carrying the item last pulled from it, sources pairwise distinct and in range, Next returns the heap's least entry and ends exactly when the heap is empty - not: permutation/sortedness of the merged output), xmath Abs (per integer width, exact wrap)/Min/Max/Clamp, xmaps ToIndex/FromKeysAndValues/Set/SetFromSlice/Difference/Union/Intersection/Intersects/Reverse/ReverseSingle, xrand Shuffle/RShuffle (permutation), Sample/RSample (min(k, n) pairwise distinct positions below n) and the slice/iterator/stream samplers (no panic, documented result length), all on a trusted contract of sampler.Next; xerrors.WithStack (nil-preserving, returns err itself when its chain already has a stack, otherwise wraps it - relative to an assumed contract of errors.Is).",
         "Trusted: gvc, SMT solvers, assumed contracts of package slices/sort. Assumed: orders are strict weak orders, callbacks pure, NaN not modelled. xsort.Slice carries a TRUSTED contract (a permutation of its argument, sorted) used by xmaps.Intersection/Intersects; xerrors.WithStack, xsort.MergeSlices and the sort wrappers Slice/SliceStable/SliceIsSorted are exercised only by bounded stand-ins (in-package tests, exhaustive over small inputs, injected with go test -overlay; labelled bounded, never counted as proved; the WithStack one found and now guards a repaired idempotence defect). Not under contract (listed in evidence): xsort.MergeSlices; uniformity of sampling is probabilistic and not decidable here. A failed obligation of a free function is replayed on the real code (generated test evaluating the contract on candidate inputs, seeded with the solver's model); where that finds an input the VIOLATION line carries it, otherwise it ends in no-failing-input-found.",
         "4.13", CLAIMED["C06"][3])
CLAIMED["C20"] = ("Partial deductive proof: SleepContext's decision logic (nil at once iff d <= 0; DeadlineTooSoonError with the right fields iff a deadline closer than d, before any timer exists; otherwise nil only through the arm of a timer created with exactly d, ctx.Err() only through the Done arm); JitterTicker argument validation (panics iff d <= 0 or jitter >= d), no panic for 0 <= jitter < d, every scheduled delay within [d-jitter, d+jitter], Stop and Reset advance the generation that pending callbacks compare against; the callback handed to time.AfterFunc is verified as a function literal of its own, from an arbitrary later state of the ticker: it sends a tick only while the ticker's generation equals the one it captured, re-arms exactly once in that case, and otherwise touches neither the channel nor the ticker - with Stop's postcondition this gives 'no tick after Stop' for every callback that takes the mutex after Stop.",
         "Trusted: gvc, assumed contracts of time.NewTimer/AfterFunc/Until, context, math/rand, sync.Mutex; wall-clock behaviour of timers. Not covered: that the mutex serialises Stop/Reset and a firing callback (sync.Mutex assumed), that the runtime runs the callback after the requested delay, tick spacing as observed on the channel.",
         "4.14", CLAIMED["C06"][3])

CLAIMED["C03"] = ("Partial deductive proof of the structural part: a ghost node set, ghost heights and ghost child indices carry the invariant `structOK` (every non-root node holds 7..15 keys, the root 0..15; all leaves at ghost height 0 and every child one level below its parent, i.e. balanced; parent/child links mutually consistent; slots at and beyond n hold zero values / nil children); newBtree establishes it and Put (insertIntoLeaf, overfill with its five loops, amalgam view) and Delete (removeRightmost, steal, rotateLeft/Right, merge/mergeTwo cascade, root collapse) re-establish it for every tree and key, by inductive loop invariants and mutually recursive contracts; searchNode makes at most n <= 15 comparisons and Get/Contains call it once per level (ghost counters).",
         "Trusted: gvc, SMT solvers. Assumed: compare is a pure total function. Not covered (evidence not_covered_clauses): the closed-form depth bound 1+floor(log8((n+1)/2)) (it follows on paper from the proved occupancy and balance; the count of keys per level is not mechanised), Len == number of stored keys (t.size is not linked to a ghost count of keys), 'exactly one search path' (needs the ordering invariant of C01, not proved).",
         "4.3", CLAIMED["C06"][3])

CLAIMED["C02"] = ("Partial deductive proof of the safety and lost-detection part: a cursor invariant curOK (parked in a live or a dead node; if the tree's generation is the one the cursor saw, its slot still holds its key) is established by every seek, preserved by Put and Delete for every cursor of the tree (ghost clients; Put/Delete are proved to either leave generation, node population, occupancies and keys unchanged or to advance the generation, and every node that leaves the tree keeps n == 0 for ever: ghost set `dead`), and is all that cursor.Next/Prev, lost, refind, the Seek* family and forward/backwardIterator.Next require; under it these functions never panic (every index, nil and type-assertion obligation), an exhausted iterator stays exhausted, and every pair an iterator yields sits in a live node slot at that moment with the value read from the same slot; Range/RangeReverse hand out iterators satisfying the invariant for all nine bound-kind pairs.",
         "Trusted: gvc, SMT solvers. Assumed: compare is pure and reflexive; single goroutine. Not covered (evidence not_covered_clauses): strict monotonicity, staying inside the bounds, 'no key that stays is skipped' and 'a key inserted beyond the position is yielded' - all four need the key-ordering invariant of C01, which is not under contract; termination ('never spins') is not proved (partial correctness only).",
         "4.2", CLAIMED["C06"][3])

CLAIMED["C01"] = ("Partial deductive proof against an abstract map (ghost key set per subtree, ghost key->value and key->slot maps, Len = t.size) under an ordering invariant ordOK (keys of a node strictly ascending; a subtree's keys lie strictly between the separators around it; a key of a node's set that lies strictly between two adjacent separators is in the child between them; an equivalent key is the same key; every key has exactly one slot): Get, Contains, First, Last return what the ideal sorted map returns for every tree satisfying the invariant, every key and every strict weak order given as a three-way compare; Put either overwrites the value of the one equivalent key in place or adds the key (domain, values, Len change exactly as in the ideal map) and Delete removes exactly the equivalent key; the invariant is re-established by Put's in-place overwrite and leaf insertion and by Delete's leaf removal and predecessor replacement; the less->compare adaptation (xsort.LessCompare) turns a strict weak `less` into such a compare; NewMap/NewMapCmp/NewSet/NewSetCmp start from the empty map and every Map/Set method delegates to the shared tree with these contracts (copies of a Map/Set share the pointer).",
         "Trusted: gvc, SMT solvers. For the five rebalancing steps (overfill = node split, rotateLeft, rotateRight, mergeTwo, removeRightmost) the following IS proved: the data movement (which key/value/child ends in which slot of which node: split at amalgam position 8, rotation through exactly the separator between the two siblings, merge around it, predecessor = last pair of the rightmost leaf), the value half of the invariant (slot value = abstract value of the slot key) and the unchanged abstract value map. NOT proved: that these movements re-establish the key half of the invariant (sortedness, separator bracketing, subtree key sets, one slot per key) - a trusted postcondition of those five functions, listed by every run in the evidence under assumptions; for rotateLeft and rotateRight the thorough tier derives it from the proved postconditions with lemma clients (about 30 steps each), for mergeTwo, removeRightmost (whose key-set effects along the rightmost spine are proved; only the invariant-with-one-exception is trusted) and overfill it stays trusted. Not covered: Iterate/Range/RangeReverse results (order, bounds, completeness need successor reasoning on cursors), Len == cardinality of the key set (only the per-operation +1/-1/0 is proved), the concurrent-Put clause (data races: goroutines).",
         "4.1", CLAIMED["C06"][3])

NOT_APPLICABLE = {
 "C10": "stream.Pipe: every clause is quantified over goroutine interleavings and the runtime's choice among ready select arms; a sequential contract verifier has no model of several goroutines sharing channels (DESIGN.md section 6).",
 "C11": "stream.Batch: three goroutines, a timer and an unbuffered hand-over; partition, max-wait and 'Close always returns' are schedule and liveness statements, not expressible as per-call contracts (DESIGN.md section 6).",
 "C13": "parallel.Do/Map: exactly-once, the concurrency bound, the barrier and first-error hold or fail per schedule of worker goroutines and an atomic counter; only the parallelism==1 fast path is sequential, which does not decide the property (DESIGN.md section 6).",
 "C14": "parallel.MapIterator/MapStream: order, in-flight bound, deadlock freedom and shutdown depend on dispatcher/worker/consumer interleavings; no per-call contract within reach decides them (DESIGN.md section 6).",
 "C16": "xsync.ContextCond: lost-wakeup freedom concerns the window between unlock and select across goroutines; not expressible as a per-call contract (DESIGN.md section 6).",
 "C17": "xsync.Group: StopAndWait as a barrier and trigger coalescing are schedule properties of spawn/Stop/trigger races (DESIGN.md section 6).",
}

PENDING = "contracts for this property are not yet discharged by the verifier at this commit (planned: DESIGN.md section 4); not claimed until its check passes on the unchanged tree."

def main():
    props = [json.loads(l) for l in open('/verif/properties.jsonl')]
    checks = []
    na = []
    for p in props:
        pid = p['id']
        if pid in CLAIMED:
            text, note, ref, tech = CLAIMED[pid]
            checks.append({
                "property_id": pid,
                "quick_cmd": f"/verif/bin/gvc check --property {pid} --tier quick",
                "thorough_cmd": f"/verif/bin/gvc check --property {pid} --tier thorough",
                "evidence_file": f"/verif/evidence/{pid}.json",
                "replay_cmd_template": "/verif/bin/gvc replay {path}",
                "engine": "gvc",
                "level_claimed": {"category": "proof", "text": text, "design_ref": "DESIGN.md " + ref},
                "level_note": note,
                "technique": tech,
            })
        else:
            na.append({"property_id": pid, "reason": NOT_APPLICABLE.get(pid, PENDING)})
    hooks_commits = subprocess.run(["git", "-C", "/repo", "log", "--format=%H %s"], capture_output=True, text=True).stdout.splitlines()
    src = [l.split()[0] for l in hooks_commits if 'verif hook' in l]
    m = {
        "version": 1,
        "setup_cmd": "cd /verif/gvc && GOFLAGS=-mod=mod GOPROXY=off GOSUMDB=off GOTOOLCHAIN=local go build -o /verif/bin/gvc ./cmd/gvc",
        "hooks": {
            "guard": "verif",
            "enable": "go build -tags verif (gvc loads /repo with -tags=verif; the guarded files hold //@ contract comments and ghost client functions only)",
            "baseline_off_cmd": "cd /repo && GOFLAGS=-mod=mod GOPROXY=off GOSUMDB=off go test -json -vet=off -count=1 -timeout 25m ./...",
            "source_commits": src,
            "add_only": True,
        },
        "engines": [{"name": "gvc", "path": "/verif/gvc", "serves_properties": sorted(CLAIMED), "kind_free_text": "contract-based deductive verifier for Go written for this task: go/ast+go/types symbolic executor generating named proof obligations per function under contract, discharged by racing z3 4.8.12, z3 5.1.0 and cvc5 1.0.3"}],
        "checks": checks,
        "not_applicable": na,
        "notes": "Contracts live in /repo/<pkg>/verif_contracts.go under build tag verif. Known findings: /verif/known_findings.txt. Seeded changes: /verif/seeded/.",
    }
    json.dump(m, open('/verif/MANIFEST.json', 'w'), indent=1)
    try:
        import jsonschema
        jsonschema.validate(m, json.load(open('/root/.vp/MANIFEST.schema.json')))
        print("MANIFEST.json valid;", len(checks), "checks,", len(na), "not_applicable")
    except ImportError:
        print("jsonschema not available; not validated")

main()
