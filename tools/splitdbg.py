#!/usr/bin/env python3
"""debug aid: split the negated goal of a VC file into conjuncts and report each one's status"""
import sys,subprocess,re
f=sys.argv[1]; T=sys.argv[2] if len(sys.argv)>2 else '10'
lines=open(f).read().rstrip().split('\n')
assert lines[-1]=='(check-sat)'
g=lines[-2]
assert g.startswith('(assert (not ') and g.endswith('))')
goal=g[len('(assert (not '):-2]
def args(s):
    s=s.strip()
    if not (s.startswith('(') and s.endswith(')')): return None
    s=s[1:-1]; out=[];d=0;st=-1;bar=False
    for i,c in enumerate(s):
        if bar:
            if c=='|': bar=False
            continue
        if c=='|':
            bar=True
            if st<0: st=i
        elif c=='(':
            if d==0 and st<0: st=i
            d+=1
        elif c==')':
            d-=1
            if d==0: out.append(s[st:i+1]); st=-1
        elif c in ' \n\t':
            if d==0 and st>=0: out.append(s[st:i]); st=-1
        else:
            if st<0: st=i
    if st>=0: out.append(s[st:])
    return out
def split(g):
    a=args(g)
    if not a: return [g]
    if a[0]=='and':
        r=[]
        for x in a[1:]: r+=split(x)
        return r
    if a[0]=='=>' and len(a)==3:
        return ['(=> %s %s)'%(a[1],x) for x in split(a[2])]
    return [g]
parts=split(goal)
import os
ONLY=os.environ.get('ONLY')
for i,p in enumerate(parts):
    if ONLY and str(i)!=ONLY: continue
    if ONLY: open('/tmp/sp_%s.smt2'%ONLY,'w').write('\n'.join(lines[:-2])+'\n(assert (not '+p+'))\n(check-sat)\n')
    open('/tmp/sp.smt2','w').write('\n'.join(lines[:-2])+'\n(assert (not '+p+'))\n(check-sat)\n')
    res=[]
    for sv in (['z3-new','-T:'+T,'/tmp/sp.smt2'],['z3','-T:'+T,'/tmp/sp.smt2'],['cvc5','--tlimit='+T+'000','--full-saturate-quant','/tmp/sp.smt2'],['z3-new','-T:'+T,'sat.euf=true','/tmp/sp.smt2']):
        out=subprocess.run(sv,capture_output=True,text=True).stdout
        r=[l for l in out.split('\n') if l.strip() in('sat','unsat','unknown','timeout')]
        res.append(r[0] if r else out[:80])
    print(i,res,p[:170].replace('\n',' '))
