#!/bin/bash
# usage: confirm_seed.sh <mutdir> -- confirms a seeded change in a scratch worktree of /repo (HEAD):
#   1. demo passes without the patch   2. patch applies, builds, full suite passes   3. demo fails with the patch
# prints a one-line verdict; leaves nothing behind.
d=$1
export GOFLAGS=-mod=mod GOPROXY=off GOSUMDB=off GOTOOLCHAIN=local
wt=/tmp/seedwt.$$
git -C /repo worktree add --detach $wt HEAD >/dev/null 2>&1 || { echo "$d: worktree failed"; exit 2; }
trap 'git -C /repo worktree remove --force $wt >/dev/null 2>&1; rm -rf $wt' EXIT
patch=$d/patch.diff
[ -f $d/patch.rebased.diff ] && patch=$d/patch.rebased.diff
dir=$(head -1 $d/demo_test.go | sed -n 's#^// dir: *##p')
[ -z "$dir" ] && { echo "$d: no dir line"; exit 2; }
cp $d/demo_test.go $wt/$dir/zz_seed_test.go
cd $wt
base=$(go test -vet=off -count=1 ./$dir/ 2>&1 | tail -1)
if ! echo "$base" | grep -q '^ok'; then echo "$(basename $d): DEMO-FAILS-ON-CLEAN-TREE ($base)"; exit 1; fi
if ! git apply $patch 2>/dev/null && ! git apply -3 $patch 2>/dev/null; then echo "$(basename $d): PATCH-DOES-NOT-APPLY"; exit 1; fi
rm $wt/$dir/zz_seed_test.go
suite=$(go test -vet=off -count=1 ./... 2>&1 | grep -v '^ok\|no test files\|TestJitterTicker\|xtime_test.go\|^FAIL$\|juniper/xtime' | head -3 | tr '\n' ' ')
cp $d/demo_test.go $wt/$dir/zz_seed_test.go
withp=$(go test -vet=off -count=1 ./$dir/ 2>&1 | tail -1)
if [ -n "$suite" ]; then echo "$(basename $d): SUITE-FAILS-WITH-PATCH ($suite)"; exit 1; fi
if echo "$withp" | grep -q '^ok'; then echo "$(basename $d): DEMO-PASSES-WITH-PATCH"; exit 1; fi
echo "$(basename $d): CONFIRMED (demo ok on clean tree, fails with patch; suite passes with patch)"
