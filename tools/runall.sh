#!/bin/bash
# Runs every claimed check (quick tier) on /repo's working tree; with --cold the verdict cache is dropped first.
# Use after every engine or contract change and before committing evidence files.
cd /verif
[ "$1" = "--cold" ] && rm -rf /verif/out/cache
rc=0
for p in $(python3 -c "import json;print(' '.join(c['property_id'] for c in json.load(open('/verif/MANIFEST.json'))['checks']))") "$@"; do
  [ "$p" = "--cold" ] && continue
  /verif/bin/gvc check --property $p 2>&1 | grep -E "FAILED|VIOLATION|KNOWN|^gvc" | cut -c1-240
  [ ${PIPESTATUS[0]} -ne 0 ] && rc=1
done
exit $rc
