#!/usr/bin/env python3
"""Copies the confirmed seeded changes from /tmp/mut/out into /verif/seeded/<id>/ with meta.json, and
records which gvc check (if any) reports them. Run from /verif with /repo clean."""
import json, os, re, shutil, subprocess, sys
SRC='/tmp/mut/out'
props={json.loads(l)['id']:json.loads(l) for l in open('/verif/properties.jsonl')}
claimed=[c['property_id'] for c in json.load(open('/verif/MANIFEST.json'))['checks']]
only=sys.argv[1:] 
for name in sorted(os.listdir(SRC)):
    if not re.match(r'C\d\d[a-z]?-\d$',name): continue
    if only and name not in only: continue
    d=os.path.join(SRC,name); pid=name[:3]
    if os.environ.get('CONFIRMED_ALREADY'):
        conf=name+': CONFIRMED (demo ok on clean tree, fails with patch; suite passes with patch)'  # confirm_seed.sh was run by hand just before
    else:
        conf=subprocess.run(['/verif/tools/confirm_seed.sh',d],capture_output=True,text=True).stdout.strip().split('\n')[-1]
    patch=os.path.join(d,'patch.rebased.diff') if os.path.exists(os.path.join(d,'patch.rebased.diff')) else os.path.join(d,'patch.diff')
    out=os.path.join('/verif/seeded',name); os.makedirs(out,exist_ok=True)
    shutil.copy(patch,os.path.join(out,'patch.diff')); shutil.copy(os.path.join(d,'demo_test.go'),os.path.join(out,'demo_test.go'))
    notes=open(os.path.join(d,'notes.txt')).read() if os.path.exists(os.path.join(d,'notes.txt')) else ''
    detected={}
    if 'CONFIRMED' in conf and pid in claimed and not os.environ.get('SKIP_DETECT'):
        # which properties to run: the mutant's own, plus the ones sharing the code
        run=[pid]
        r=subprocess.run(['/verif/tools/try_mutant.sh',os.path.join(out,'patch.diff')]+run,capture_output=True,text=True,env=dict(os.environ,HEAD='200',CUT='400'))
        fails=[l for l in r.stdout.split('\n') if l.startswith('FAILED-OBLIGATION')]
        viol=[l for l in r.stdout.split('\n') if l.startswith('VIOLATION')]
        detected={'violation_lines':len(viol),'failed_obligations':[re.sub(r'^FAILED-OBLIGATION \S+ ','',f)[:160] for f in fails[:6]]}
    meta={'id':name,'property':pid,'breaks':props[pid]['title'],'needs_to_manifest':notes.strip()[:1200],
          'confirmed_by_me':conf,'what_i_ran':'tools/confirm_seed.sh (scratch worktree of /repo HEAD incl. fix commits: demo passes clean, patch applies, full suite passes with patch, demo fails with patch); tools/try_mutant.sh <patch> '+pid,
          'claimed_property':pid in claimed,'gvc_result':detected,'caught':bool(detected.get('violation_lines'))}
    json.dump(meta,open(os.path.join(out,'meta.json'),'w'),indent=1)
    print(name,conf.split(':')[1].strip()[:40],'| caught' if meta['caught'] else ('| MISSED' if pid in claimed else '| not claimed'))
