package main

// call.go: calls (inlining, contracts, function values, interface protocol methods) and the
// top-level verification of one function against its contract.

import (
	"sort"
	"fmt"
	"go/ast"
	"go/token"
	"go/types"
	"strings"
)

type callTarget struct {
	kind   string // static, closure, fnvalue, iface, builtin, conv
	fn     *types.Func
	fi     *FuncInfo
	recv   *Val
	args   []Val
	tsub   map[*types.TypeParam]types.Type
	fnVal  Val
	call   *ast.CallExpr
	sig    *types.Signature
	name   string
	bname  string
	convTo types.Type
	ifaceNamed *types.Named
}

func (ex *Exec) call(st *State, x *ast.CallExpr, k func(*State, []Val)) {
	fr := st.frame
	// conversion?
	if tv, ok := fr.info.Types[x.Fun]; ok && tv.IsType() {
		ex.conversion(st, x, substType(tv.Type, fr.tsub), func(st *State, v Val) { k(st, []Val{v}) })
		return
	}
	// builtin?
	if id, ok := ast.Unparen(x.Fun).(*ast.Ident); ok {
		if b, ok := fr.info.Uses[id].(*types.Builtin); ok {
			ex.invoke(st, &callTarget{kind: "builtin", bname: b.Name(), call: x}, k)
			return
		}
	}
	ex.evalCallOperands(st, x, func(st *State, ct *callTarget) { ex.invoke(st, ct, k) })
}

func (ex *Exec) evalCallOperands(st *State, x *ast.CallExpr, k func(*State, *callTarget)) {
	fr := st.frame
	fun := ast.Unparen(x.Fun)
	// explicit instantiation f[T](...)
	switch ix := fun.(type) {
	case *ast.IndexExpr:
		if tv, ok := fr.info.Types[ix.X]; ok {
			if _, isSig := tv.Type.Underlying().(*types.Signature); isSig {
				fun = ix.X
			}
		}
	case *ast.IndexListExpr:
		fun = ix.X
	}
	ct := &callTarget{call: x}
	if id, ok := fun.(*ast.Ident); ok {
		if b, ok := fr.info.Uses[id].(*types.Builtin); ok {
			ct.kind, ct.bname = "builtin", b.Name()
			k(st, ct)
			return
		}
	}
	evalArgs := func(st *State) {
		ex.callArgs(st, x, ct, func(st *State, args []Val) {
			ct.args = args
			k(st, ct)
		})
	}
	var id *ast.Ident
	switch f := fun.(type) {
	case *ast.Ident:
		id = f
	case *ast.SelectorExpr:
		id = f.Sel
		if sel := fr.info.Selections[f]; sel != nil {
			if sel.Kind() == types.MethodVal {
				m := sel.Obj().(*types.Func)
				ct.fn = m
				ct.name = m.Name()
				recvT := ex.typeOf(fr, f.X)
				if _, isIface := types.Unalias(recvT).Underlying().(*types.Interface); isIface {
					ct.kind = "iface"
					if tp, ok := types.Unalias(recvT).(*types.TypeParam); ok {
						// method of a type parameter: the protocol contract of its (named) constraint
						if cn, ok := types.Unalias(tp.Constraint()).(*types.Named); ok {
							ct.ifaceNamed = cn
						} else {
							panic(unsupported("method call on a type parameter with an unnamed constraint"))
						}
					}
					if n, ok := types.Unalias(recvT).(*types.Named); ok {
						ct.ifaceNamed = n
					}
					ct.sig = substType(sel.Type(), fr.tsub).(*types.Signature)
					ex.expr(st, f.X, func(st *State, r Val) {
						ct.recv = &r
						evalArgs(st)
					})
					return
				}
				ct.kind = "static"
				ct.fi = ex.prog.funcOf(m)
				ct.sig = substType(sel.Type(), fr.tsub).(*types.Signature)
				osig := m.Origin().Type().(*types.Signature)
				wantPtr := false
				if _, ok := osig.Recv().Type().(*types.Pointer); ok {
					wantPtr = true
				}
				_, _, havePtr := structOf(recvT)
				ct.tsub = ex.recvTsub(osig, recvT)
				if len(sel.Index()) != 1 {
					panic(unsupported("promoted method call " + exprStr(f)))
				}
				switch {
				case wantPtr && !havePtr:
					// auto-address
					ex.addrOfExpr(st, f.X, types.NewPointer(recvT), func(st *State, r Val) {
						r.Go = types.NewPointer(recvT)
						ct.recv = &r
						evalArgs(st)
					})
				case !wantPtr && havePtr:
					ex.expr(st, f.X, func(st *State, r Val) {
						ex.nilCheck(st, r, f.Pos(), func(st *State) {
							pt := types.Unalias(r.Go).Underlying().(*types.Pointer)
							v := ex.loadStruct(st, r.T, pt.Elem())
							ct.recv = &v
							evalArgs(st)
						})
					})
				default:
					ex.expr(st, f.X, func(st *State, r Val) {
						ct.recv = &r
						evalArgs(st)
					})
				}
				return
			}
			// field holding a function value
			id = nil
		}
	}
	if id != nil {
		if fo, ok := fr.info.Uses[id].(*types.Func); ok {
			ct.kind = "static"
			ct.fn = fo
			ct.name = fo.Name()
			ct.fi = ex.prog.funcOf(fo)
			osig := fo.Origin().Type().(*types.Signature)
			ct.tsub = map[*types.TypeParam]types.Type{}
			if inst, ok := fr.info.Instances[id]; ok && osig.TypeParams() != nil {
				for i := 0; i < osig.TypeParams().Len(); i++ {
					ct.tsub[osig.TypeParams().At(i)] = substType(inst.TypeArgs.At(i), fr.tsub)
				}
			}
			ct.sig = substType(osig, ct.tsub).(*types.Signature)
			evalArgs(st)
			return
		}
	}
	// function value
	ex.expr(st, fun, func(st *State, f Val) {
		ct.fnVal = f
		sig, ok := sigOf(f.Go)
		if !ok {
			panic(unsupported("call of non-function " + exprStr(fun)))
		}
		ct.sig = sig
		if _, isClosure := ex.closures[f.T]; isClosure {
			ct.kind = "closure"
		} else {
			ct.kind = "fnvalue"
		}
		evalArgs(st)
	})
}

func (ex *Exec) recvTsub(osig *types.Signature, recvT types.Type) map[*types.TypeParam]types.Type {
	m := map[*types.TypeParam]types.Type{}
	rtp := osig.RecvTypeParams()
	if rtp == nil || rtp.Len() == 0 {
		return m
	}
	t := types.Unalias(recvT)
	if p, ok := t.Underlying().(*types.Pointer); ok {
		t = types.Unalias(p.Elem())
	}
	n, ok := t.(*types.Named)
	if !ok || n.TypeArgs() == nil {
		return m
	}
	for i := 0; i < rtp.Len(); i++ {
		m[rtp.At(i)] = n.TypeArgs().At(i)
	}
	return m
}

func (ex *Exec) callArgs(st *State, x *ast.CallExpr, ct *callTarget, k func(*State, []Val)) {
	// a function literal passed directly to an effect-free external function may read the heap:
	// nothing can change between its creation and its only uses inside that call
	if ct.fn != nil && ct.fi == nil {
		if c, ok := ex.prog.Ext[extKey(ct.fn)]; ok && c.Pure {
			ex.allowHeapClosure = true
			k0 := k
			k = func(st *State, vs []Val) {
				ex.allowHeapClosure = false
				k0(st, vs)
			}
		}
	}
	sig := ct.sig
	if len(x.Args) == 1 && sig != nil && sig.Params().Len() > 1 {
		// f(g()) with multi-value g
		ex.exprN(st, x.Args[0], k)
		return
	}
	ex.exprList(st, x.Args, func(st *State, vals []Val) {
		if sig != nil && sig.Variadic() && !x.Ellipsis.IsValid() {
			np := sig.Params().Len()
			fixed := vals
			var rest []Val
			if len(vals) >= np-1 {
				fixed, rest = vals[:np-1], vals[np-1:]
			}
			vt := sig.Params().At(np - 1).Type()
			st2 := st
			if vsl, ok := types.Unalias(vt).Underlying().(*types.Slice); ok {
				conv := make([]Val, len(rest))
				for i, r := range rest {
					conv[i] = ex.convTo(r, vsl.Elem())
				}
				rest = conv
			}
			sl := ex.sliceLiteral(st2, vt, rest)
			vals = append(append([]Val{}, fixed...), sl)
		}
		for i := range vals {
			if sig != nil && i < sig.Params().Len() {
				vals[i] = ex.convTo(vals[i], sig.Params().At(i).Type())
			}
		}
		k(st, vals)
	})
}

func (ex *Exec) sliceLiteral(st *State, ty types.Type, vs []Val) Val {
	u := types.Unalias(ty).Underlying().(*types.Slice)
	es := ex.w.sortOf(u.Elem())
	s := &Sort{Kind: KSlice, Name: "Slice", Elem: es, Go: ty}
	if len(vs) == 0 {
		return Val{T: ex.w.zero(s), S: s, Go: ty}
	}
	arr := ex.newArr(st, "varargs")
	row := ex.zeroRow(es)
	for i, v := range vs {
		row = sStore(row, fmt.Sprint(i), v.T)
	}
	key := ex.memKey(es)
	ms := ex.w.memSort(es)
	m := ex.heapGet(st, key, ms)
	ex.heapSet(st, key, ms, sStore(m, arr, row))
	return Val{T: fmt.Sprintf("(mkslice %s 0 %d %d)", arr, len(vs), len(vs)), S: s, Go: ty}
}

func (ex *Exec) invoke(st *State, ct *callTarget, k func(*State, []Val)) {
	if st.frame.fi == ex.top && (st.frame.closure == nil || ex.closureTop) && ex.top.Spec != nil && len(ex.top.Spec.Anchors) > 0 && ct.call != nil {
		name, ord := ex.callAnchor(ct)
		ex.anchorArgs = ct.args
		cutPath := ex.runAnchors(st, "before", name, ord)
		ex.anchorArgs = nil
		if cutPath {
			return // `assume false`: the path is cut here (reported as an assumption)
		}
		k0 := k
		args0 := ct.args
		ex.lastWitness = nil
		k = func(st *State, vs []Val) {
			if st.frame.fi == ex.top && (st.frame.closure == nil || ex.closureTop) {
				ex.anchorResults = vs
				ex.anchorArgs = args0 // the argument values as passed (entry values)
				ex.runAnchors(st, "after", name, ord)
				ex.anchorResults = nil
				ex.anchorArgs = nil
			}
			k0(st, vs)
		}
	}
	ex.invoke1(st, ct, k)
}

// callAnchor: name of the callee and the ordinal of this call among the calls to that name in
// the top-level function (source order).
func (ex *Exec) callAnchor(ct *callTarget) (string, int) {
	name := calleeName(ct.call)
	ord := 0
	ast.Inspect(ex.top.Decl.Body, func(n ast.Node) bool {
		if c, ok := n.(*ast.CallExpr); ok && c != ct.call && c.Pos() < ct.call.Pos() && calleeName(c) == name {
			ord++
		}
		return true
	})
	return name, ord
}

func calleeName(c *ast.CallExpr) string {
	fun := ast.Unparen(c.Fun)
	switch ix := fun.(type) {
	case *ast.IndexExpr:
		fun = ix.X
	case *ast.IndexListExpr:
		fun = ix.X
	}
	switch f := fun.(type) {
	case *ast.Ident:
		return f.Name
	case *ast.SelectorExpr:
		return f.Sel.Name
	}
	return "?"
}

func (ex *Exec) runAnchors(st *State, when, name string, ord int) (cut bool) {
	for _, an := range ex.top.Spec.Anchors {
		if an.When != when || an.Callee != name || an.Ord != ord || !ex.propActive(an.Props) {
			continue
		}
		if ex.firedAnchors == nil {
			ex.firedAnchors = map[*Anchored]bool{}
		}
		ex.firedAnchors[an] = true
		env := ex.specEnvFor(st, ex.top)
		for k, v := range st.frame.ghost {
			env.bind[k] = v
		}
		for i, v := range ex.anchorArgs {
			env.bind[fmt.Sprintf("callarg%d", i)] = v
		}
		if when == "after" {
			// ghost locals of the callee's contract (its witnesses) are visible as callghost_<name>
			for k, v := range ex.lastWitness {
				env.bind["callghost_"+k] = v
			}
		}
		for i, v := range ex.anchorResults {
			env.bind[fmt.Sprintf("callresult%d", i)] = v
			if i == 0 {
				env.bind["callresult"] = v
			}
		}
		func() {
			defer ex.specRecover("anchored clause in " + ex.top.Key)
			switch an.Kind {
			case "havoc":
				// the named locations take arbitrary values (effects of callbacks that the callee's
				// contract cannot name); what is known afterwards must be assumed explicitly
				ex.w.assumed["havoc in "+ex.top.FullName()+" "+when+" call "+name+": "+an.Src] = true
				targets := env.evalModifies(&Contract{Modifies: an.Havoc})
				ws := &writeSet{vars: map[types.Object]bool{}, keys: map[string]*Sort{}}
				for _, t := range targets {
					ws.keys[t.key] = t.sort
				}
				pre := st.snapshot()
				ex.havocHeap(st, pre, ws, targets)
			case "ghost":
				env.ghostUpdate(an.Ghost)
			case "ghostmap":
				env.ghostMapUpdate(an.GhostMap)
			case "assert":
				ex.oblige(st, "assert", an.Props, env.goal(an.E), "assert "+an.Src, token.NoPos)
				st.assume(env.boolTerm(an.E))
			case "assume":
				ex.w.assumed["assume in "+ex.top.FullName()+" "+when+" call "+name+": "+an.Src] = true
				t := env.boolTerm(an.E)
				st.assume(t)
				if t == "false" {
					cut = true
				} else {
					// vacuity guard: an assumed (rely) condition must not contradict what is known here
					ex.oblige(st, "cover.assume", an.Props, "false", "the assumed condition is satisfiable here (must NOT be provable): "+an.Src, token.NoPos)
					ex.obls[len(ex.obls)-1].Vacuity = true
				}
			}
		}()
	}
	return cut
}

func (ex *Exec) invoke1(st *State, ct *callTarget, k func(*State, []Val)) {
	switch ct.kind {
	case "builtin":
		ex.builtin(st, ct.bname, ct.call, k)
	case "static":
		if ct.fi != nil {
			forceInline := false
			if ex.top != nil && ex.top.Spec != nil {
				for _, n := range ex.top.Spec.InlineCalls {
					if n == ct.fi.Decl.Name.Name || n == ct.fi.Key {
						forceInline = true
					}
				}
			}
			if ct.fi.Spec != nil && !ct.fi.Spec.Inline && !forceInline {
				ex.callContract(st, ct.fi.Spec, ct.fi, ct, k)
				return
			}
			ex.inline(st, ct, k)
			return
		}
		// external function: assume-ext contract
		key := extKey(ct.fn)
		if c, ok := ex.prog.Ext[key]; ok {
			ex.w.assumed["assume-ext "+key] = true
			ex.callContract(st, c, nil, ct, k)
			return
		}
		if ex.extBuiltin(st, key, ct, k) {
			return
		}
		panic(unsupported("call to external function without assume-ext contract: " + key))
	case "closure":
		ex.inlineClosure(st, ct, k)
	case "fnvalue":
		ex.callFnValue(st, ct, k)
	case "iface":
		if ex.dispatchTo(st, ct, k) {
			return
		}
		key := "?"
		if ct.ifaceNamed != nil {
			key = ct.ifaceNamed.Obj().Pkg().Name() + "." + ct.ifaceNamed.Obj().Name() + "." + ct.name
		} else if ct.fn != nil && ct.fn.Pkg() == nil {
			key = "error." + ct.name
		}
		if c, ok := ex.prog.Ext[key]; ok {
			if ct.ifaceNamed != nil && ex.prog.Pkgs[ct.ifaceNamed.Obj().Pkg().Path()] == nil {
				ex.w.assumed["assume-ext "+key] = true
			} else {
				ex.w.assumed["protocol "+key+" (assumed of caller-supplied implementations)"] = true
			}
			ex.callContract(st, c, nil, ct, k)
			return
		}
		panic(unsupported("interface method call without protocol contract: " + key))
	default:
		panic(unsupported("call kind " + ct.kind))
	}
}

func extKey(fn *types.Func) string {
	sig := fn.Type().(*types.Signature)
	pkg := ""
	if fn.Pkg() != nil {
		pkg = fn.Pkg().Name() + "."
	}
	if sig.Recv() != nil {
		t := sig.Recv().Type()
		if p, ok := t.(*types.Pointer); ok {
			t = p.Elem()
		}
		if n, ok := types.Unalias(t).(*types.Named); ok {
			return pkg + n.Obj().Name() + "." + fn.Name()
		}
	}
	return pkg + fn.Name()
}

// ---------- inlining ----------

func (ex *Exec) newFrame(st *State, fi *FuncInfo, tsub map[*types.TypeParam]types.Type) *Frame {
	depth := 0
	if st.frame != nil {
		depth = st.frame.depth + 1
	}
	return &Frame{parent: st.frame, fi: fi, info: fi.Pkg.P.TypesInfo, tsub: tsub, vars: map[types.Object]Val{}, names: map[string]types.Object{}, boxed: map[types.Object]bool{}, depth: depth}
}

func (ex *Exec) bindParams(st *State, fr *Frame, recvList, params, results *ast.FieldList, info *types.Info, recv *Val, args []Val) {
	save := st.frame
	st.frame = fr
	if recvList != nil && len(recvList.List) > 0 && len(recvList.List[0].Names) > 0 && recv != nil {
		obj := info.Defs[recvList.List[0].Names[0]]
		if obj != nil {
			v := *recv
			v.Go = substType(obj.Type(), fr.tsub)
			ex.declare(st, obj, v)
		}
	}
	i := 0
	if params != nil {
		for _, f := range params.List {
			if len(f.Names) == 0 {
				i++
				continue
			}
			for _, n := range f.Names {
				obj := info.Defs[n]
				if obj != nil && i < len(args) {
					v := args[i]
					v = ex.convTo(v, substType(obj.Type(), fr.tsub))
					v.Go = substType(obj.Type(), fr.tsub)
					ex.declare(st, obj, v)
				}
				i++
			}
		}
	}
	if results != nil {
		for _, f := range results.List {
			for _, n := range f.Names {
				obj := info.Defs[n]
				if obj != nil {
					ex.declare(st, obj, ex.zeroVal(substType(obj.Type(), fr.tsub)))
					fr.results = append(fr.results, obj)
				}
			}
		}
	}
	st.frame = save
}

func (ex *Exec) inline(st *State, ct *callTarget, k func(*State, []Val)) {
	fi := ct.fi
	if st.frame.depth > maxInlineDepth {
		panic(unsupported("inlining depth exceeded at " + fi.Key + " (recursive function needs a contract)"))
	}
	for f := st.frame; f != nil; f = f.parent {
		if f.fi == fi && f.closure == nil && f != st.frame.closure {
			panic(unsupported("recursive call to " + fi.Key + " needs a contract"))
		}
	}
	fr := ex.newFrame(st, fi, ct.tsub)
	ex.bindParams(st, fr, fi.Decl.Recv, fi.Decl.Type.Params, fi.Decl.Type.Results, fr.info, ct.recv, ct.args)
	fr.onReturn = func(st *State, vals []Val) {
		st.frame = st.frame.parent
		k(st, vals)
	}
	fr.onPanic = func(st *State) {
		desc := st.frame.panicDesc
		st.frame = st.frame.parent
		if st.frame.panicDesc == "" {
			st.frame.panicDesc = desc
		}
		ex.doPanic(st)
	}
	st.frame = fr
	ex.block(st, fi.Decl.Body.List, func(st *State) {
		// fell off the end
		ex.doReturn(st, nil)
	})
}

func (ex *Exec) funcLit(st *State, x *ast.FuncLit) Val {
	fr := st.frame
	ty := ex.typeOf(fr, x)
	n := ex.newRef(st, "closure")
	ex.closures[n] = &closureInfo{lit: x, frame: fr, info: fr.info, fi: fr.fi}
	// a pure closure (single return of a side-effect free expression) gets its defining axiom so
	// that contracts can speak about it as a mathematical function
	ex.pureClosureAxiom(st, n, x, ty)
	return Val{T: n, S: sRef, Go: ty}
}

func (ex *Exec) inlineClosure(st *State, ct *callTarget, k func(*State, []Val)) {
	ci := ex.closures[ct.fnVal.T]
	if st.frame.depth > maxInlineDepth+4 {
		panic(unsupported("closure inlining depth exceeded"))
	}
	// find the live instance of the defining frame on the current stack (frames are cloned on fork)
	var lex *Frame
	for f := st.frame; f != nil; f = f.parent {
		if f.fi == ci.frame.fi && f.depth == ci.frame.depth {
			lex = f
			break
		}
		for c := f.closure; c != nil; c = c.closure {
			if c.fi == ci.frame.fi && c.depth == ci.frame.depth {
				lex = c
			}
		}
		if lex != nil {
			break
		}
	}
	if lex == nil {
		lex = ci.frame // escaped closure: captured variables keep their values at creation
	}
	fr := &Frame{parent: st.frame, fi: ci.fi, info: ci.info, tsub: lex.tsub, vars: map[types.Object]Val{}, names: map[string]types.Object{}, boxed: map[types.Object]bool{}, depth: st.frame.depth + 1, closure: lex}
	fr.litSig = ct.sig
	if s, ok := ci.info.Types[ci.lit].Type.(*types.Signature); ok {
		fr.litSig = substType(s, lex.tsub).(*types.Signature)
	}
	ex.bindParams(st, fr, nil, ci.lit.Type.Params, ci.lit.Type.Results, ci.info, nil, ct.args)
	fr.onReturn = func(st *State, vals []Val) {
		st.frame = st.frame.parent
		k(st, vals)
	}
	fr.onPanic = func(st *State) {
		desc := st.frame.panicDesc
		st.frame = st.frame.parent
		if st.frame.panicDesc == "" {
			st.frame.panicDesc = desc
		}
		ex.doPanic(st)
	}
	st.frame = fr
	ex.block(st, ci.lit.Body.List, func(st *State) { ex.doReturn(st, nil) })
}

// ---------- function values ----------

func (ex *Exec) applyFn(sig *types.Signature) (string, []*Sort, *Sort) {
	var as []*Sort
	as = append(as, sRef)
	for i := 0; i < sig.Params().Len(); i++ {
		as = append(as, ex.w.sortOf(sig.Params().At(i).Type()))
	}
	var rs *Sort
	switch sig.Results().Len() {
	case 0:
		rs = sBool
	case 1:
		rs = ex.w.sortOf(sig.Results().At(0).Type())
	default:
		rs = ex.w.sortOf(sig.Results())
	}
	var names []string
	for _, a := range as[1:] {
		names = append(names, strings.Trim(a.Name, "|"))
	}
	n := sym("apply_" + strings.Join(names, "_") + "_to_" + strings.Trim(rs.Name, "|"))
	ex.w.declFun(n, as, rs)
	return n, as, rs
}

// applyPure: the result of calling function value f as a mathematical function of its arguments.
func (ex *Exec) applyPure(f Val, sig *types.Signature, args []Val) []Val {
	fn, _, rs := ex.applyFn(sig)
	ts := []string{f.T}
	for _, a := range args {
		ts = append(ts, a.T)
	}
	app := sApp(fn, ts...)
	switch sig.Results().Len() {
	case 0:
		return nil
	case 1:
		return []Val{{T: app, S: rs, Go: sig.Results().At(0).Type()}}
	}
	var out []Val
	for i, fld := range rs.Fields {
		out = append(out, Val{T: sApp(fld.Sel, app), S: fld.S, Go: sig.Results().At(i).Type()})
	}
	return out
}

// callFnValue: a call through a function value whose body is unknown.  User callbacks are assumed
// pure (deterministic, no effect on the library's state), as the properties quantify over such
// callbacks; this is listed among the assumptions.  Callbacks declared `callback` in a contract
// are handled by callCallback.
func (ex *Exec) callFnValue(st *State, ct *callTarget, k func(*State, []Val)) {
	if ex.callCallback(st, ct, k) {
		return
	}
	ex.w.assumed["caller-supplied function values are pure (deterministic, no effect on library state)"] = true
	ex.safety(st, "safe.nilfunc", sNot(sEq(ct.fnVal.T, "nil")), "call of nil function", ct.call.Pos(), func(st *State) {
		rs := ex.applyPure(ct.fnVal, ct.sig, ct.args)
		for _, r := range rs {
			st.assume(ex.typeInv(st, r))
		}
		k(st, rs)
	})
}

// pureClosureAxiom: for `func(a, b T) R { return e }` with e free of effects, assert
// forall a b. apply(c, a, b) = e.
func (ex *Exec) pureClosureAxiom(st *State, c string, x *ast.FuncLit, ty types.Type) {
	sig, ok := sigOf(ty)
	if !ok || sig.Results().Len() != 1 {
		return
	}
	// only bodies built from if/else and return of effect-free expressions
	okBody := true
	ast.Inspect(x.Body, func(n ast.Node) bool {
		switch c := n.(type) {
		case *ast.IndexExpr:
			if !ex.allowHeapClosure {
				okBody = false
			}
		case *ast.FuncLit, *ast.SliceExpr, *ast.StarExpr, *ast.TypeAssertExpr, *ast.CompositeLit,
			*ast.ForStmt, *ast.RangeStmt, *ast.AssignStmt, *ast.IncDecStmt, *ast.GoStmt, *ast.DeferStmt, *ast.SendStmt, *ast.SelectStmt:
			okBody = false
		case *ast.CallExpr:
			if id, ok := c.Fun.(*ast.Ident); ok {
				switch id.Name {
				case "append", "make", "copy", "new", "delete", "panic", "close":
					okBody = false
				}
			}
		}
		return okBody
	})
	if !okBody {
		return
	}
	fr := st.frame
	scratch := st.fork()
	nf := &Frame{parent: scratch.frame, fi: fr.fi, info: fr.info, tsub: fr.tsub, vars: map[types.Object]Val{}, names: map[string]types.Object{}, boxed: map[types.Object]bool{}, depth: scratch.frame.depth + 1, closure: scratch.frame}
	nf.litSig = sig
	var decl []string
	var args []Val
	for _, f := range x.Type.Params.List {
		for _, nm := range f.Names {
			obj := fr.info.Defs[nm]
			if obj == nil {
				return
			}
			pt := substType(obj.Type(), fr.tsub)
			ps := ex.w.sortOf(pt)
			qn := fmt.Sprintf("cl_%s_%d", nm.Name, ex.qcounter())
			nf.vars[obj] = Val{T: qn, S: ps, Go: pt}
			nf.names[nm.Name] = obj
			decl = append(decl, fmt.Sprintf("(%s %s)", qn, ps.Name))
			args = append(args, Val{T: qn, S: ps, Go: pt})
		}
	}
	if len(decl) == 0 {
		return
	}
	nObl := len(ex.obls)
	nAss := len(scratch.assumes)
	nDecl := len(ex.w.decls)
	heap0 := map[string]string{}
	for k, v := range scratch.heap {
		heap0[k] = v
	}
	type ret struct {
		conds []string
		val   string
	}
	var rets []ret
	bad := false
	nf.onReturn = func(s2 *State, vals []Val) {
		if len(vals) != 1 {
			bad = true
			return
		}
		for k, v := range s2.heap {
			if v0, ok := heap0[k]; ok && v0 != v {
				bad = true // the body has effects
			}
		}
		rets = append(rets, ret{append([]string{}, s2.assumes[nAss:]...), vals[0].T})
	}
	nf.onPanic = func(*State) {}
	scratch.frame = nf
	func() {
		defer func() {
			if r := recover(); r != nil {
				if _, ok := r.(unsupportedErr); ok {
					bad = true
					return
				}
				panic(r)
			}
		}()
		ex.block(scratch, x.Body.List, func(s2 *State) { bad = true })
	}()
	// obligations produced while evaluating under quantified variables are not meaningful
	ex.obls = ex.obls[:nObl]
	if !bad {
		// definitions introduced while evaluating under bound variables must not escape
		for _, d := range ex.w.decls[nDecl:] {
			for _, dv := range decl {
				bv := strings.Fields(strings.Trim(dv, "()"))[0]
				if strings.Contains(d, bv) {
					bad = true
				}
			}
		}
	}
	if bad || len(rets) == 0 || len(rets) > 8 {
		ex.w.undeclareFrom(nDecl)
		return
	}
	// value = ite over the path conditions (the last path is the default)
	body := rets[len(rets)-1].val
	for i := len(rets) - 2; i >= 0; i-- {
		body = sIte(sAnd(rets[i].conds...), rets[i].val, body)
	}
	app := ex.applyPure(Val{T: c, S: sRef, Go: ty}, sig, args)
	st.assume(fmt.Sprintf("(forall (%s) (! (= %s %s) :pattern (%s)))", strings.Join(decl, " "), app[0].T, body, app[0].T))
}

// ---------- contract application at a call site ----------

func (ex *Exec) contractEnv(st *State, c *Contract, fi *FuncInfo, ct *callTarget) *SpecEnv {
	n := 0
	env := &SpecEnv{ex: ex, st: st, bind: map[string]Val{}, fi: fi, qn: &n, tsub: ct.tsub}
	if fi != nil {
		env.pkg = fi.Pkg
		// bind parameters by their declared names
		if fi.Decl.Recv != nil && len(fi.Decl.Recv.List) > 0 && len(fi.Decl.Recv.List[0].Names) > 0 && ct.recv != nil {
			r := *ct.recv
			if o := fi.Pkg.P.TypesInfo.Defs[fi.Decl.Recv.List[0].Names[0]]; o != nil {
				r.Go = substType(o.Type(), ct.tsub)
			}
			env.bind[fi.Decl.Recv.List[0].Names[0].Name] = r
		}
		i := 0
		for _, f := range fi.Decl.Type.Params.List {
			if len(f.Names) == 0 {
				i++
			}
			for _, nm := range f.Names {
				if i < len(ct.args) {
					v := ct.args[i]
					if o := fi.Pkg.P.TypesInfo.Defs[nm]; o != nil {
						v.Go = substType(o.Type(), ct.tsub)
					}
					env.bind[nm.Name] = v
				}
				i++
			}
		}
	} else {
		// ext / protocol contract: parameter names come from the block header
		env.pkg = ex.prog.Pkgs[c.Pkg]
		names := c.Params
		if ct.recv != nil && len(names) > 0 {
			env.bind[names[0]] = *ct.recv
			names = names[1:]
		}
		for i, nm := range names {
			if i < len(ct.args) {
				env.bind[nm] = ct.args[i]
			}
		}
		// type parameters of an external generic function are visible by name through tsub
		env.extSig = ct.sig
	}
	return env
}

func (ex *Exec) callContract(st *State, c *Contract, fi *FuncInfo, ct *callTarget, k func(*State, []Val)) {
	name := c.Key
	if fi != nil {
		name = fi.Key
	}
	pre := st.snapshot()
	env := ex.contractEnv(st, c, fi, ct)
	env.old = pre
	if fi != nil && !c.NoAutoRecvNonNil && ct.recv != nil {
		if _, _, isPtr := structOf(ct.recv.Go); isPtr {
			ex.safety(st, "safe.nil", sNot(sEq(ct.recv.T, "nil")), "method call on nil receiver", ct.call.Pos(), func(st *State) {})
			st.assume(sNot(sEq(ct.recv.T, "nil")))
		}
	}
	// preconditions
	func() {
		defer ex.specRecover("requires of " + name)
		for _, r := range c.Requires {
			if !ex.layerActive(r.Props) {
				continue
			}
			ex.oblige(st, "pre@"+name, r.Props, env.goal(r.E), "precondition of "+name+": "+r.Src, ct.call.Pos())
		}
	}()
	for _, r := range c.Requires {
		if !ex.layerActive(r.Props) {
			continue
		}
		st.assume(env.boolTerm(r.E))
	}
	targets := env.evalModifies(c)
	ws := &writeSet{vars: map[types.Object]bool{}, keys: map[string]*Sort{}}
	for _, t := range targets {
		ws.keys[t.key] = t.sort
	}
	if !c.Pure && !c.NoAlloc {
		ws.keys["alloc"] = ex.w.setSort(sRef)
		ws.keys["arralloc"] = ex.w.setSort(sArrId)
		// a callee may allocate objects of any type it mentions: their fields are fresh, which the
		// frame condition (restricted to pre-allocated objects) already permits.  Fields of types the
		// callee allocates must therefore be havocked as well.
		for key, s := range ex.allocKeys(c, fi, ct) {
			if _, ok := ws.keys[key]; !ok {
				ws.keys[key] = s
			}
		}
	}
	normal := func(st *State) {
		post := st
		if c.Repeats != "" {
			if ex.repeatCallback(st, c, ct, name, func(st *State) { ex.finishContractCall(st, pre, c, fi, ct, name, nil, nil, k) }) {
				return
			}
		}
		ex.havocHeap(post, pre, ws, targets)
		penv := ex.contractEnv(post, c, fi, ct)
		penv.old = pre
		// results
		var results []Val
		var rnames []string
		if fi != nil && fi.Decl.Type.Results != nil {
			for _, f := range fi.Decl.Type.Results.List {
				if len(f.Names) == 0 {
					rnames = append(rnames, "")
				}
				for _, nm := range f.Names {
					rnames = append(rnames, nm.Name)
				}
			}
		} else {
			rnames = c.Results
		}
		for i := 0; i < ct.sig.Results().Len(); i++ {
			rt := ct.sig.Results().At(i).Type()
			v := ex.freshVal(post, "res_"+name, rt)
			results = append(results, v)
			if i < len(rnames) && rnames[i] != "" {
				penv.bind[rnames[i]] = v
			}
		}
		if len(results) == 1 {
			penv.bind["result"] = results[0]
		}
		for i, r := range results {
			penv.bind[fmt.Sprintf("result%d", i)] = r
		}
		func() {
			defer ex.specRecover("ensures of " + name)
			// ghost locals of the callee are witnesses chosen by the callee: fresh constants here
			for _, g := range c.GhostInit {
				if id, ok := g.LHS.(*SIdent); ok {
					if _, bound := penv.bind[id.Name]; bound {
						continue
					}
					var srt *Sort
					var gty types.Type
					if lam, isLam := g.RHS.(*SLambda); isLam {
						cenv := penv.child()
						_, vs := penv.resolveType(lam.Vars[0].Type)
						cenv.bind[lam.Vars[0].Name] = Val{T: "dummy_lam", S: vs}
						body := cenv.eval(lam.Body)
						srt = ex.w.mapGSort(vs, body.S)
						if vs.Kind == KInt {
							srt = ex.w.seqSort(body.S)
						}
					} else {
						iv := penv.with(pre).eval(g.RHS)
						srt, gty = iv.S, iv.Go
					}
					penv.bind[id.Name] = Val{T: ex.w.freshConst("wit_"+id.Name, srt), S: srt, Go: gty}
					if ex.lastWitness == nil {
						ex.lastWitness = map[string]Val{}
					}
					ex.lastWitness[id.Name] = penv.bind[id.Name]
				}
			}
			for _, g := range c.Ghosts {
				if !ex.layerActive(g.Props) {
					continue
				}
				// ghost updates are part of the callee's effect: callers see them as equalities
				penv.ghostAssume(g)
			}
			for _, e := range c.Ensures {
				if !ex.layerActive(e.Props) {
					continue
				}
				if e.Trusted {
					if ex.top != nil && ex.top.Spec != nil && ex.top.Spec.WithoutTrust {
						continue // a lemma client derives the trusted clause from the proved ones
					}
					ex.w.assumed["trusted postcondition (NOT proved) of "+name+": "+e.Src] = true
				}
				post.assume(penv.boolTerm(e.E))
			}
		}()
		// refine dynamic types of results where the contract states them
		k(post, results)
	}
	if len(c.Panics) == 0 {
		normal(st)
		return
	}
	// the callee panics exactly when one of its `panics when` conditions holds
	var conds []string
	for _, p := range c.Panics {
		conds = append(conds, env.boolTerm(p.E))
	}
	pc := sOr(conds...)
	ex.branch(st, pc, func(st *State) {
		// panic propagates; state as described by pensures (default: unchanged)
		if len(c.PEnsures) > 0 {
			ex.havocHeap(st, pre, ws, targets)
			penv := ex.contractEnv(st, c, fi, ct)
			penv.old = pre
			for _, e := range c.PEnsures {
				st.assume(penv.boolTerm(e.E))
			}
		}
		st.frame.panicDesc = "panic propagated from " + name + " at " + ex.posString(ct.call.Pos())
		ex.doPanic(st)
	}, normal)
}

func (ex *Exec) specRecover(what string) {
	if r := recover(); r != nil {
		if sf, ok := r.(specFail); ok {
			panic(unsupported("contract error in " + what + ": " + sf.msg))
		}
		panic(r)
	}
}

// ghostAssume: at a call site, a callee's ghost update `x.f := e` is visible as x.f == e.
func (env *SpecEnv) ghostAssume(g *GhostUpd) {
	ex := env.ex
	sel, ok := g.LHS.(*SSel)
	if !ok {
		return
	}
	var base Val
	var key string
	var gs *Sort
	if idx, k, s, _, ok := env.with(env.old).nestedGhostPath(sel); ok {
		base, key, gs = idx, k, s
	} else {
		base = env.with(env.old).eval(sel.X)
		var gf *GhostField
		gf, key, gs, _ = env.ghostField(base.Go, sel.Name)
		if gf == nil {
			env.fail("no ghost field %s", specString(g.LHS))
		}
	}
	a := ex.heapGet(env.st, key, ex.w.mapGSort(sRef, gs))
	cur := sSel(a, base.T)
	if lam, ok := g.RHS.(*SLambda); ok {
		c := env.child()
		_, vs := env.resolveType(lam.Vars[0].Type)
		n := fmt.Sprintf("lam_%s_%d", lam.Vars[0].Name, ex.qcounter())
		c.bind[lam.Vars[0].Name] = Val{T: n, S: vs}
		body := c.eval(lam.Body)
		env.st.assume(fmt.Sprintf("(forall ((%s %s)) (! (= (select %s %s) %s) :pattern ((select %s %s))))", n, vs.Name, cur, n, body.T, cur, n))
		return
	}
	v := env.eval(g.RHS)
	env.st.assume(sEq(cur, v.T))
}

// allocKeys: heap arrays of struct types that the callee may allocate (syntactic scan of the
// callee body for composite literals / new, transitively through inlined callees).
func (ex *Exec) allocKeys(c *Contract, fi *FuncInfo, ct *callTarget) map[string]*Sort {
	out := map[string]*Sort{}
	if fi == nil {
		return out
	}
	seen := map[*FuncInfo]bool{}
	var scan func(fi *FuncInfo, tsub map[*types.TypeParam]types.Type)
	scan = func(fi *FuncInfo, tsub map[*types.TypeParam]types.Type) {
		if seen[fi] {
			return
		}
		seen[fi] = true
		info := fi.Pkg.P.TypesInfo
		ast.Inspect(fi.Decl.Body, func(n ast.Node) bool {
			switch x := n.(type) {
			case *ast.CompositeLit:
				if tv, ok := info.Types[x]; ok {
					ex.addStructKeys(out, substType(tv.Type, tsub))
				}
			case *ast.CallExpr:
				if id, ok := x.Fun.(*ast.Ident); ok && id.Name == "new" {
					if tv, ok := info.Types[x]; ok {
						if p, ok := tv.Type.Underlying().(*types.Pointer); ok {
							ex.addStructKeys(out, substType(p.Elem(), tsub))
						}
					}
				}
				if callee := ex.staticCallee(info, x); callee != nil {
					if cfi := ex.prog.funcOf(callee); cfi != nil {
						scan(cfi, ex.calleeTsubStatic(info, x, callee, tsub))
					}
				}
			case *ast.UnaryExpr:
				if x.Op == token.AND {
					if id, ok := x.X.(*ast.Ident); ok {
						if o := info.ObjectOf(id); o != nil {
							ex.addStructKeys(out, substType(o.Type(), tsub))
						}
					}
				}
			}
			return true
		})
	}
	scan(fi, ct.tsub)
	return out
}

func (ex *Exec) addStructKeys(out map[string]*Sort, t types.Type) {
	n, stT, _ := structOf(t)
	if stT == nil {
		return
	}
	defer func() { recover() }()
	for i := 0; i < stT.NumFields(); i++ {
		f := stT.Field(i)
		ft := ex.fieldType(namedOr(n, stT), f)
		if _, isArr := types.Unalias(ft).Underlying().(*types.Array); isArr {
			continue
		}
		out[ex.fieldKey(n, stT, f.Name())] = ex.fieldArraySort(ex.w.sortOf(ft))
	}
}

func (ex *Exec) staticCallee(info *types.Info, x *ast.CallExpr) *types.Func {
	fun := ast.Unparen(x.Fun)
	switch ix := fun.(type) {
	case *ast.IndexExpr:
		fun = ix.X
	case *ast.IndexListExpr:
		fun = ix.X
	}
	switch f := fun.(type) {
	case *ast.Ident:
		if fo, ok := info.Uses[f].(*types.Func); ok {
			return fo
		}
	case *ast.SelectorExpr:
		if sel := info.Selections[f]; sel != nil {
			if sel.Kind() == types.MethodVal {
				if _, isIface := types.Unalias(sel.Recv()).Underlying().(*types.Interface); isIface {
					return nil // dynamic dispatch: handled through the protocol contract
				}
				return sel.Obj().(*types.Func)
			}
			return nil
		}
		if fo, ok := info.Uses[f.Sel].(*types.Func); ok {
			return fo
		}
	}
	return nil
}

func (ex *Exec) calleeTsubStatic(info *types.Info, x *ast.CallExpr, callee *types.Func, tsub map[*types.TypeParam]types.Type) map[*types.TypeParam]types.Type {
	m := map[*types.TypeParam]types.Type{}
	osig := callee.Origin().Type().(*types.Signature)
	fun := ast.Unparen(x.Fun)
	switch ix := fun.(type) {
	case *ast.IndexExpr:
		fun = ix.X
	case *ast.IndexListExpr:
		fun = ix.X
	}
	switch f := fun.(type) {
	case *ast.Ident:
		if inst, ok := info.Instances[f]; ok && osig.TypeParams() != nil {
			for i := 0; i < osig.TypeParams().Len(); i++ {
				m[osig.TypeParams().At(i)] = substType(inst.TypeArgs.At(i), tsub)
			}
		}
	case *ast.SelectorExpr:
		if sel := info.Selections[f]; sel != nil {
			if tv, ok := info.Types[f.X]; ok {
				return ex.recvTsub(osig, substType(tv.Type, tsub))
			}
		} else if inst, ok := info.Instances[f.Sel]; ok && osig.TypeParams() != nil {
			for i := 0; i < osig.TypeParams().Len(); i++ {
				m[osig.TypeParams().At(i)] = substType(inst.TypeArgs.At(i), tsub)
			}
		}
	}
	return m
}

// ---------- write sets for loops ----------

func (ex *Exec) writeSetOf(fr *Frame, nodes []ast.Node) *writeSet {
	ws := &writeSet{vars: map[types.Object]bool{}, keys: map[string]*Sort{}}
	seen := map[*FuncInfo]bool{}
	var scan func(n ast.Node, info *types.Info, tsub map[*types.TypeParam]types.Type, local bool, depth int)
	addLHS := func(e ast.Expr, info *types.Info, tsub map[*types.TypeParam]types.Type, local bool) {
		e = ast.Unparen(e)
		for {
			switch l := e.(type) {
			case *ast.Ident:
				if local {
					if o := info.ObjectOf(l); o != nil {
						ws.vars[o] = true
					}
				}
				return
			case *ast.SelectorExpr:
				if sel := info.Selections[l]; sel != nil && sel.Kind() == types.FieldVal {
					if tv, ok := info.Types[l.X]; ok {
						bt := substType(tv.Type, tsub)
						n, stT, isPtr := structOf(bt)
						if isPtr && stT != nil {
							ft := ex.fieldType(bt, sel.Obj().(*types.Var))
							ws.keys[ex.fieldKey(n, stT, sel.Obj().Name())] = ex.fieldArraySort(ex.w.sortOf(ft))
							return
						}
					}
				}
				e = ast.Unparen(l.X)
				continue
			case *ast.IndexExpr:
				if tv, ok := info.Types[l.X]; ok {
					bt := substType(tv.Type, tsub)
					switch u := types.Unalias(bt).Underlying().(type) {
					case *types.Slice:
						es := ex.w.sortOf(u.Elem())
						ws.keys[ex.memKey(es)] = ex.w.memSort(es)
						return
					case *types.Array:
						es := ex.w.sortOf(u.Elem())
						ws.keys[ex.memKey(es)] = ex.w.memSort(es)
						return
					case *types.Pointer:
						if a, ok := types.Unalias(u.Elem()).Underlying().(*types.Array); ok {
							es := ex.w.sortOf(a.Elem())
							ws.keys[ex.memKey(es)] = ex.w.memSort(es)
						}
						return
					case *types.Map:
						for _, t := range ex.mapKeysT(u) {
							ws.keys[t.key] = t.sort
						}
						return
					}
				}
				return
			case *ast.StarExpr:
				if tv, ok := info.Types[l.X]; ok {
					if p, ok := substType(tv.Type, tsub).Underlying().(*types.Pointer); ok {
						ex.addStructKeys(ws.keys, p.Elem())
					}
				}
				return
			default:
				return
			}
		}
	}
	scan = func(n ast.Node, info *types.Info, tsub map[*types.TypeParam]types.Type, local bool, depth int) {
		ast.Inspect(n, func(n ast.Node) bool {
			switch x := n.(type) {
			case *ast.AssignStmt:
				for _, l := range x.Lhs {
					addLHS(l, info, tsub, local)
				}
			case *ast.IncDecStmt:
				addLHS(x.X, info, tsub, local)
			case *ast.RangeStmt:
				if tv, ok := info.Types[x.X]; ok {
					if _, isChan := types.Unalias(substType(tv.Type, tsub)).Underlying().(*types.Chan); isChan {
						ex.chanWriteKeysT(ws, substType(tv.Type, tsub))
					}
				}
				if x.Key != nil {
					addLHS(x.Key, info, tsub, local)
				}
				if x.Value != nil {
					addLHS(x.Value, info, tsub, local)
				}
			case *ast.CompositeLit:
				if tv, ok := info.Types[x]; ok {
					ex.addStructKeys(ws.keys, substType(tv.Type, tsub))
					ws.keys["alloc"] = ex.w.setSort(sRef)
					if sl, ok := substType(tv.Type, tsub).Underlying().(*types.Slice); ok {
						es := ex.w.sortOf(sl.Elem())
						ws.keys[ex.memKey(es)] = ex.w.memSort(es)
						ws.keys["arralloc"] = ex.w.setSort(sArrId)
					}
				}
			case *ast.UnaryExpr:
				if x.Op == token.AND {
					ws.keys["alloc"] = ex.w.setSort(sRef)
				}
				if x.Op == token.ARROW {
					if tv, ok := info.Types[x.X]; ok {
						ex.chanWriteKeysT(ws, substType(tv.Type, tsub))
					} else {
						ex.chanWriteKeys(ws)
					}
				}
			case *ast.SendStmt:
				if tv, ok := info.Types[x.Chan]; ok {
					ex.chanWriteKeysT(ws, substType(tv.Type, tsub))
				} else {
					ex.chanWriteKeys(ws)
				}
			case *ast.FuncLit:
				return true
			case *ast.CallExpr:
				if id, ok := ast.Unparen(x.Fun).(*ast.Ident); ok {
					if _, isB := info.Uses[id].(*types.Builtin); isB {
						switch id.Name {
						case "append", "copy", "make":
							if tv, ok := info.Types[x.Args[0]]; ok {
								t := substType(tv.Type, tsub)
								if id.Name == "make" {
									if tv2, ok := info.Types[x]; ok {
										t = substType(tv2.Type, tsub)
									}
								}
								if sl, ok := types.Unalias(t).Underlying().(*types.Slice); ok {
									es := ex.w.sortOf(sl.Elem())
									ws.keys[ex.memKey(es)] = ex.w.memSort(es)
								}
								if mp, ok := types.Unalias(t).Underlying().(*types.Map); ok {
									for _, t := range ex.mapKeysT(mp) {
										ws.keys[t.key] = t.sort
									}
									ws.keys["alloc"] = ex.w.setSort(sRef)
								}
							}
							ws.keys["arralloc"] = ex.w.setSort(sArrId)
						case "delete":
							if tv, ok := info.Types[x.Args[0]]; ok {
								if mp, ok := types.Unalias(substType(tv.Type, tsub)).Underlying().(*types.Map); ok {
									for _, t := range ex.mapKeysT(mp) {
										ws.keys[t.key] = t.sort
									}
								}
							}
						case "new":
							ws.keys["alloc"] = ex.w.setSort(sRef)
							if tv, ok := info.Types[x]; ok {
								if p, ok := tv.Type.Underlying().(*types.Pointer); ok {
									ex.addStructKeys(ws.keys, substType(p.Elem(), tsub))
								}
							}
						case "close":
							if tv, ok := info.Types[x.Args[0]]; ok {
								ex.chanWriteKeysT(ws, substType(tv.Type, tsub))
							} else {
								ex.chanWriteKeys(ws)
							}
						}
						return true
					}
				}
				callee := ex.staticCallee(info, x)
				if callee == nil {
					// function value or interface method: protocol contracts name their modifies
					ex.ifaceWriteKeys(ws, info, x, tsub)
					return true
				}
				cfi := ex.prog.funcOf(callee)
				ctsub := ex.calleeTsubStatic(info, x, callee, tsub)
				if cfi == nil {
					if c, ok := ex.prog.Ext[extKey(callee)]; ok {
						ex.contractWriteKeys(ws, c, nil, callee, ctsub)
					} else {
						ex.extWriteKeys(ws, extKey(callee), info, x, tsub)
					}
					return true
				}
				if cfi.Spec != nil && !cfi.Spec.Inline {
					ex.contractWriteKeys(ws, cfi.Spec, cfi, callee, ctsub)
					return true
				}
				if !seen[cfi] && depth < 8 {
					seen[cfi] = true
					scan(cfi.Decl.Body, cfi.Pkg.P.TypesInfo, ctsub, false, depth+1)
				}
			}
			return true
		})
	}
	for _, n := range nodes {
		scan(n, fr.info, fr.tsub, true, 0)
	}
	// closures called in the loop may assign captured locals: covered because FuncLit bodies
	// inside the loop are scanned with local=true; closures defined outside and called inside are
	// handled conservatively by scanning every FuncLit of the enclosing function
	return ws
}

// contractWriteKeys adds the heap arrays named by a contract's modifies clause, evaluated with
// dummy arguments of the right types (only the keys matter).
func (ex *Exec) contractWriteKeys(ws *writeSet, c *Contract, fi *FuncInfo, callee *types.Func, tsub map[*types.TypeParam]types.Type) {
	defer func() {
		if r := recover(); r != nil {
			if _, ok := r.(specFail); ok {
				ws.all = true
				return
			}
			panic(r)
		}
	}()
	if !c.Pure && !c.NoAlloc {
		ws.keys["alloc"] = ex.w.setSort(sRef)
		ws.keys["arralloc"] = ex.w.setSort(sArrId)
	}
	osig := callee.Origin().Type().(*types.Signature)
	sig := substType(osig, tsub).(*types.Signature)
	ct := &callTarget{tsub: tsub, sig: sig}
	if osig.Recv() != nil {
		rt := substType(osig.Recv().Type(), tsub)
		v := Val{T: "dummy_recv", S: ex.w.sortOf(rt), Go: rt}
		ct.recv = &v
	}
	for i := 0; i < sig.Params().Len(); i++ {
		pt := sig.Params().At(i).Type()
		ct.args = append(ct.args, Val{T: fmt.Sprintf("dummy_%d", i), S: ex.w.sortOf(pt), Go: pt})
	}
	scratch := &State{heap: map[string]string{}, frame: nil}
	env := ex.contractEnv(scratch, c, fi, ct)
	env.old = scratch
	saveEntry := ex.entry
	ex.entry = nil
	defer func() { ex.entry = saveEntry }()
	for _, t := range env.evalModifies(c) {
		ws.keys[t.key] = t.sort
	}
	for key, s := range ex.allocKeys(c, fi, ct) {
		ws.keys[key] = s
	}
}

// layerActive: a clause labelled with property tags (`requires C01: ...`) belongs to a layer of
// contracts; at a call site it is checked and used only if the calling function takes part in one of
// those layers (its own contract mentions the tag). A caller outside the layer neither has to
// establish the labelled preconditions nor may it use the labelled postconditions.
// propActive: when one property is being checked, clauses labelled with other properties only are
// switched off altogether (neither assumed nor proved, their ghost code not run), so that the
// obligations of that property are proved in the context of its own layer.
func (ex *Exec) propActive(props []string) bool {
	// only for packages whose contract file opts in (`//@ layers`): elsewhere labels merely attribute
	// obligations to properties and unlabelled clauses may depend on labelled ones
	if ex.top == nil || ex.top.Pkg == nil || ex.top.Pkg.Spec == nil || !ex.top.Pkg.Spec.StrictLayers {
		return true
	}
	return len(props) == 0 || ex.activeProp == "" || hasProp(props, ex.activeProp)
}

func (ex *Exec) layerActive(props []string) bool {
	if !ex.propActive(props) {
		return false
	}
	if len(props) == 0 || ex.top == nil || ex.top.Spec == nil {
		return true
	}
	for _, p := range props {
		if contractMentions(ex.top.Spec, p) {
			return true
		}
	}
	return false
}

// ---------- top-level verification of one function ----------

// entryState builds the symbolic entry state of fi: fresh parameters, typing invariants,
// the contract's requires assumed, modifies evaluated, ghostinit executed.
func (ex *Exec) entryState(fi *FuncInfo, c *Contract) (*State, *SpecEnv) {
	ex.top = fi
	ex.curProps = c.Props
	st := &State{heap: map[string]string{}}
	ex.entry = &State{heap: map[string]string{}}
	tsub := map[*types.TypeParam]types.Type{}
	for k, v := range ex.topTsub {
		tsub[k] = v
	}
	fr := &Frame{fi: fi, info: fi.Pkg.P.TypesInfo, tsub: tsub, vars: map[types.Object]Val{}, names: map[string]types.Object{}, boxed: map[types.Object]bool{}}
	st.frame = fr
	info := fr.info
	// symbolic parameters
	var recv *Val
	var args []Val
	sig := fi.Obj.Type().(*types.Signature)
	if sig.Recv() != nil {
		v := ex.freshVal(st, "recv", substType(sig.Recv().Type(), tsub))
		recv = &v
		if _, _, isPtr := structOf(v.Go); isPtr && !c.NoAutoRecvNonNil {
			st.assume(sNot(sEq(v.T, "nil")))
			st.assume(sSel(ex.allocArr(st), v.T))
		}
	}
	for i := 0; i < sig.Params().Len(); i++ {
		p := sig.Params().At(i)
		args = append(args, ex.freshVal(st, "arg_"+p.Name(), substType(p.Type(), tsub)))
	}
	st.assume(sNot(sSel(ex.allocArr(st), "nil")))
	ex.bindParams(st, fr, fi.Decl.Recv, fi.Decl.Type.Params, fi.Decl.Type.Results, info, recv, args)
	// entry-state binding of parameter names for contracts (parameters may be reassigned)
	ex.topEnvBind = map[string]Val{}
	for n, o := range fr.names {
		ex.topEnvBind[n] = fr.vars[o]
	}
	for _, o := range fr.results {
		delete(ex.topEnvBind, o.Name())
	}
	*ex.entry = *st.snapshot()
	ex.entry.frame = nil
	env := ex.specEnvFor(st, fi)
	env.old = ex.entry
	func() {
		defer ex.specRecover("requires of " + fi.Key)
		for _, r := range c.Requires {
			if !ex.propActive(r.Props) {
				continue
			}
			st.assume(env.boolTerm(r.E))
		}
		for _, ps := range ex.prog.AllSpecs {
			for _, ax := range ps.Axioms {
				func() {
					defer func() {
						if r := recover(); r != nil {
							if _, ok := r.(specFail); ok {
								return // not expressible in this function's scope: skipped
							}
							panic(r)
						}
					}()
					t := env.boolTerm(ax.E)
					st.assume(t)
					ex.w.assumed["axiom ("+shortPkgPath(ps.Path)+"): "+ax.Src] = true
				}()
			}
		}
		for _, u := range c.Uses {
			lm := ex.prog.lemma(u)
			if lm == nil {
				panic(unsupported("unknown lemma " + u))
			}
			st.assume(env.boolTerm(lm.Goal))
		}
	}()
	// the modifies clause, evaluated in the entry state
	func() {
		defer ex.specRecover("modifies of " + fi.Key)
		e0 := env.with(ex.entry)
		ex.topTargets = e0.evalModifies(c)
		if ex.topTargets == nil {
			ex.topTargets = []modTarget{}
		}
		// evaluating modifies may have introduced heap arrays: make them part of the entry state
		for k, v := range ex.entry.heap {
			if _, ok := st.heap[k]; !ok {
				st.heap[k] = v
			}
		}
	}()
	return st, env
}

func (p *Program) lemma(name string) *Lemma {
	for _, ps := range p.AllSpecs {
		for _, lm := range ps.Lemmas {
			if lm.Name == name {
				return lm
			}
		}
	}
	return nil
}

func (ex *Exec) verifyFunc(fi *FuncInfo) {
	c := fi.Spec
	st, env := ex.entryState(fi, c)
	fr := st.frame
	func() {
		defer ex.specRecover("ghostinit of " + fi.Key)
		for _, g := range c.GhostInit {
			env.ghostUpdate(g)
		}
	}()
	// vacuity guard: the precondition must be satisfiable
	ex.oblige(st, "cover.pre", nil, "false", "precondition is satisfiable (must NOT be provable)", fi.Decl.Pos())
	ex.obls[len(ex.obls)-1].Vacuity = true

	fr.onReturn = func(st *State, vals []Val) { ex.checkPost(st, fi, c, vals) }
	fr.onPanic = func(st *State) { ex.checkPanic(st, fi, c) }
	ex.block(st, fi.Decl.Body.List, func(st *State) { ex.doReturn(st, nil) })
	ex.verifyClosures(fi, c)
	// a function whose postcondition of layer L is trusted is not verified for that layer at all:
	// the layer's obligations inside its body are dropped and this is reported
	trustedLayer := map[string]bool{}
	for _, e := range c.Ensures {
		if e.Trusted {
			for _, p := range e.Props {
				trustedLayer[p] = true
			}
		}
	}
	if len(trustedLayer) > 0 {
		var keep []*Obligation
		for _, o := range ex.obls {
			drop := len(o.Props) > 0 && strings.HasPrefix(o.Kind, "pre@")
			for _, p := range o.Props {
				if !trustedLayer[p] {
					drop = false
				}
			}
			if drop && !o.Vacuity {
				ex.w.assumed["preconditions of layer "+strings.Join(o.Props, ",")+" at the calls inside "+fi.FullName()+" are not checked (its own postcondition for that layer is trusted)"] = true
				continue
			}
			keep = append(keep, o)
		}
		ex.obls = keep
	}
}

func (ex *Exec) checkPost(st *State, fi *FuncInfo, c *Contract, vals []Val) {
	env := ex.specEnvFor(st, fi)
	env.old = ex.entry
	env.frame = nil // postconditions speak about parameters (entry values) and results only
	for k, v := range ex.topEnvBind {
		env.bind[k] = v
	}
	for k, v := range st.frame.ghost {
		env.bind[k] = v
	}
	i := 0
	if fi.Decl.Type.Results != nil {
		for _, f := range fi.Decl.Type.Results.List {
			if len(f.Names) == 0 {
				i++
			}
			for _, nm := range f.Names {
				if i < len(vals) {
					env.bind[nm.Name] = vals[i]
				}
				i++
			}
		}
	}
	if len(vals) == 1 {
		env.bind["result"] = vals[0]
	}
	for i, v := range vals {
		env.bind[fmt.Sprintf("result%d", i)] = v
	}
	defer ex.specRecover("ensures of " + fi.Key)
	pos := fi.Decl.Pos()
	// panics exactly when: a normal return while a panic condition holds is a violation
	eenv := env.with(ex.entry)
	for _, p := range c.Panics {
		ex.oblige(st, "panic.missing", p.Props, sNot(eenv.boolTerm(p.E)), "returns normally although the contract says it panics when "+p.Src, pos)
	}
	if c.NoAlloc {
		goal := "true"
		for _, key := range []string{"alloc", "arralloc"} {
			if a1, ok := st.heap[key]; ok && a1 != sym("H0_"+key) {
				goal = sAnd(goal, sEq(a1, sym("H0_"+key)))
			}
		}
		ex.oblige(st, "noalloc", nil, goal, "noalloc: the function allocates nothing", pos)
	}
	for _, g := range c.Ghosts {
		if !ex.propActive(g.Props) {
			continue
		}
		env.ghostUpdate(g)
	}
	for _, e := range c.Ensures {
		if !ex.propActive(e.Props) {
			continue
		}
		if e.Trusted {
			ex.w.assumed["trusted postcondition (NOT proved) of "+fi.FullName()+": "+e.Src] = true
			continue
		}
		ex.oblige(st, fmt.Sprintf("post%d", e.Ord), e.Props, env.goal(e.E), "ensures "+e.Src, pos)
	}
	ex.frameObligations(st, "exit", pos)
}

func (ex *Exec) checkPanic(st *State, fi *FuncInfo, c *Contract) {
	ex.panicSeen = true
	env := ex.specEnvFor(st, fi)
	env.old = ex.entry
	env.frame = nil
	for k, v := range ex.topEnvBind {
		env.bind[k] = v
	}
	defer ex.specRecover("panics clause of " + fi.Key)
	pos := fi.Decl.Pos()
	eenv := env.with(ex.entry)
	var conds []string
	var props []string
	for _, p := range c.Panics {
		conds = append(conds, eenv.boolTerm(p.E))
		props = append(props, p.Props...)
	}
	if len(props) == 0 {
		props = nil
	}
	desc := st.frame.panicDesc
	ex.oblige(st, "panic.allowed", props, sOr(conds...), "a panic is possible here only under the contract's `panics when` condition ("+desc+")", pos)
	if len(c.PEnsures) > 0 {
		for _, e := range c.PEnsures {
			ex.oblige(st, fmt.Sprintf("panic.post%d", e.Ord), e.Props, env.goal(e.E), "at panic: "+e.Src, pos)
		}
	} else {
		// default: a panic leaves every pre-existing location unchanged
		if fi.isClient() {
			return
		}
		var goals, keys []string
		for _, key := range sortedKeys(st.heap) {
			if key == "alloc" || key == "arralloc" || strings.HasPrefix(key, "g:") {
				continue // ghost state is not observable
			}
			e0, ok := ex.entry.heap[key]
			if !ok || e0 == st.heap[key] {
				continue
			}
			s := ex.heapS[key]
			if s == nil || s.Idx == nil {
				continue
			}
			goals = append(goals, ex.frameCond(ex.entry, st, key, s, nil))
			keys = append(keys, key)
		}
		if len(goals) > 0 {
			ex.oblige(st, "panic.frame", props, sAnd(goals...), "state unchanged when panicking: "+strings.Join(keys, ", "), pos)
		}
	}
}

// verifyClosures: `closure K: requires/ensures` clauses. The K-th function literal of the body is
// executed on its own from an ARBITRARY state: fresh symbolic parameters of the enclosing function,
// fresh values for the locals it captures, an arbitrary heap, of which only the closure's own
// `requires` clauses are assumed (not the function's precondition: the callback runs later). Inside
// it the function's anchored clauses fire (their ordinals count over the whole function body), its
// safety obligations are generated as usual, a panic is an obligation failure, and the `ensures`
// clauses are checked at its returns.
func (ex *Exec) verifyClosures(fi *FuncInfo, c *Contract) {
	if len(c.Closures) == 0 {
		return
	}
	var lits []*ast.FuncLit
	ast.Inspect(fi.Decl.Body, func(n ast.Node) bool {
		if l, ok := n.(*ast.FuncLit); ok {
			lits = append(lits, l)
		}
		return true
	})
	var ks []int
	for k := range c.Closures {
		ks = append(ks, k)
	}
	sort.Ints(ks)
	for _, k := range ks {
		cs := c.Closures[k]
		if k < 0 || k >= len(lits) {
			panic(unsupported(fmt.Sprintf("closure %d: the function has %d function literals", k, len(lits))))
		}
		lit := lits[k]
		cc := *c
		cc.Requires = nil // the closure's own requires are assumed below, once its captured locals exist
		cc.GhostInit = nil
		saveEntry, saveBind, saveTargets := ex.entry, ex.topEnvBind, ex.topTargets
		ex.entry = &State{heap: map[string]string{}}
		st, _ := ex.entryState(fi, &cc)
		fr := st.frame
		info := fi.Pkg.P.TypesInfo
		// locals of the enclosing function that the literal captures: arbitrary values
		ast.Inspect(lit.Body, func(n ast.Node) bool {
			id, ok := n.(*ast.Ident)
			if !ok {
				return true
			}
			v, ok := info.Uses[id].(*types.Var)
			if !ok || v.IsField() || v.Pkg() == nil || v.Parent() == nil || v.Parent() == v.Pkg().Scope() {
				return true
			}
			if v.Pos() >= lit.Pos() && v.Pos() < lit.End() {
				return true // declared inside the literal
			}
			if _, _, has := fr.lookupVar(v); has {
				return true // a parameter or an already declared capture
			}
			ex.declare(st, v, ex.freshVal(st, "cap_"+v.Name(), substType(v.Type(), fr.tsub)))
			return true
		})
		func() {
			defer ex.specRecover("closure requires of " + fi.Key)
			renv := ex.specEnvFor(st, fi)
			renv.old = ex.entry
			for _, r := range cs.Requires {
				st.assume(renv.boolTerm(r.E))
				ex.w.assumed[fmt.Sprintf("function literal %d of %s is verified from an arbitrary state that satisfies (assumed of the moment the runtime or the callee calls it): %s", k, fi.FullName(), r.Src)] = true
			}
		}()
		*ex.entry = *st.snapshot() // old(...) in the closure's ensures: the state in which the literal starts
		ex.entry.frame = nil
		ex.closureTop = true
		name := fmt.Sprintf("closure%d", k)
		// vacuity guard: the closure's precondition must be satisfiable
		ex.oblige(st, name+".cover.pre", nil, "false", "precondition of the function literal is satisfiable (must NOT be provable)", lit.Pos())
		ex.obls[len(ex.obls)-1].Vacuity = true
		fv := ex.funcLit(st, lit)
		sig, _ := sigOf(fv.Go)
		// the literal's own parameters: arbitrary values, visible to its ensures clauses by name
		var cargs []Val
		cnames := map[string]Val{}
		if lit.Type.Params != nil {
			pi := 0
			for _, f := range lit.Type.Params.List {
				nn := len(f.Names)
				if nn == 0 {
					nn = 1
				}
				for j := 0; j < nn; j++ {
					pt := sig.Params().At(pi).Type()
					av := ex.freshVal(st, fmt.Sprintf("carg%d", pi), pt)
					st.assume(ex.typeInv(st, av))
					cargs = append(cargs, av)
					if j < len(f.Names) && f.Names[j].Name != "_" {
						cnames[f.Names[j].Name] = av
					}
					pi++
				}
			}
		}
		fr.onPanic = func(st *State) {
			ex.oblige(st, name+".nopanic", nil, "false", "the function literal does not panic ("+st.frame.panicDesc+")", lit.Pos())
		}
		fr.onReturn = func(st *State, vals []Val) {}
		func() {
			defer func() { ex.closureTop = false }()
			ex.inlineClosure(st, &callTarget{kind: "closure", fnVal: fv, sig: sig, args: cargs}, func(st *State, vals []Val) {
				env := ex.specEnvFor(st, fi)
				env.old = ex.entry
				for n, v := range cnames {
					env.bind[n] = v
				}
				for i, v := range vals {
					env.bind[fmt.Sprintf("cresult%d", i)] = v
				}
				defer ex.specRecover("closure ensures of " + fi.Key)
				for _, e := range cs.Ensures {
					if !ex.propActive(e.Props) {
						continue
					}
					ex.oblige(st, fmt.Sprintf("%s.post%d", name, e.Ord), e.Props, env.goal(e.E), "closure ensures "+e.Src, lit.Pos())
				}
			})
		}()
		ex.entry, ex.topEnvBind, ex.topTargets = saveEntry, saveBind, saveTargets
	}
}

// dispatchTo: a `dispatch Call[k] pkg.Type.Method` clause devirtualises an interface call; the
// dynamic type of the receiver becomes a proof obligation.
func (ex *Exec) dispatchTo(st *State, ct *callTarget, k func(*State, []Val)) bool {
	if ex.top == nil || ex.top.Spec == nil || len(ex.top.Spec.Dispatch) == 0 || st.frame.fi != ex.top || ct.call == nil {
		return false
	}
	name, ord := ex.callAnchor(ct)
	for _, d := range ex.top.Spec.Dispatch {
		if d.Callee != name || d.Ord != ord {
			continue
		}
		parts := strings.SplitN(d.Impl, ".", 2)
		pk := ex.prog.pkgByShort(parts[0])
		if pk == nil || len(parts) != 2 {
			panic(unsupported("dispatch target " + d.Impl))
		}
		fi := pk.Funcs[parts[1]]
		if fi == nil || fi.Spec == nil {
			panic(unsupported("dispatch target has no contract: " + d.Impl))
		}
		tname := strings.SplitN(parts[1], ".", 2)[0]
		goal := sEq(sApp(ex.dynTypeFn(), ct.recv.T), ex.typeTag(pk.Short+"."+tname))
		ex.oblige(st, "safe.dispatch", nil, goal, "receiver of "+name+" has dynamic type "+d.Impl, ct.call.Pos())
		st.assume(goal)
		// receiver retyped to the implementation's pointer type, instantiated like the interface
		obj := pk.P.Types.Scope().Lookup(tname)
		tn, ok := obj.(*types.TypeName)
		if !ok {
			panic(unsupported("dispatch type " + tname))
		}
		var rt types.Type = tn.Type()
		if named, ok := rt.(*types.Named); ok && named.TypeParams() != nil && named.TypeParams().Len() > 0 && ct.ifaceNamed != nil && ct.ifaceNamed.TypeArgs() != nil {
			var args []types.Type
			for i := 0; i < ct.ifaceNamed.TypeArgs().Len(); i++ {
				args = append(args, ct.ifaceNamed.TypeArgs().At(i))
			}
			inst, err := types.Instantiate(nil, named.Origin(), args, false)
			if err != nil {
				panic(unsupported("dispatch instantiate: " + err.Error()))
			}
			rt = inst
		}
		osig := fi.Obj.Type().(*types.Signature)
		if _, isPtr := osig.Recv().Type().(*types.Pointer); isPtr {
			rt = types.NewPointer(rt)
		}
		r := Val{T: ct.recv.T, S: sRef, Go: rt}
		nct := *ct
		nct.kind = "static"
		nct.fi = fi
		nct.recv = &r
		nct.tsub = ex.recvTsub(osig, rt)
		nct.sig = substType(osig, nct.tsub).(*types.Signature)
		ex.callContract(st, fi.Spec, fi, &nct, k)
		return true
	}
	return false
}

// typeInstances: type-parameter instantiations under which a function is verified. A type
// parameter whose constraint has a single non-basic core type (~map[K]V, ~[]T ...) is replaced by
// that core type (the code can only use operations of the core type); a union of basic types is
// verified once per member; everything else stays an uninterpreted sort.
func typeInstances(fi *FuncInfo) ([]map[*types.TypeParam]types.Type, []string) {
	sig := fi.Obj.Type().(*types.Signature)
	var tps []*types.TypeParam
	for _, l := range []*types.TypeParamList{sig.RecvTypeParams(), sig.TypeParams()} {
		if l != nil {
			for i := 0; i < l.Len(); i++ {
				tps = append(tps, l.At(i))
			}
		}
	}
	insts := []map[*types.TypeParam]types.Type{{}}
	names := []string{""}
	if fi.Spec != nil {
		for _, ak := range fi.Spec.AnyKinds {
			for _, tp := range tps {
				if tp.Obj().Name() != ak {
					continue
				}
				var ni []map[*types.TypeParam]types.Type
				var nn []string
				for i, m := range insts {
					c1 := map[*types.TypeParam]types.Type{}
					c2 := map[*types.TypeParam]types.Type{}
					for k, v := range m {
						c1[k], c2[k] = v, v
					}
					c2[tp] = types.NewInterfaceType(nil, nil).Complete()
					ni = append(ni, c1, c2)
					nn = append(nn, names[i]+"<"+ak+":concrete>", names[i]+"<"+ak+":interface>")
				}
				insts, names = ni, nn
			}
		}
	}
	for _, tp := range tps {
		iface, ok := tp.Constraint().Underlying().(*types.Interface)
		if !ok || iface.NumEmbeddeds() != 1 || iface.NumExplicitMethods() != 0 {
			continue
		}
		var terms []*types.Term
		switch e := iface.EmbeddedType(0).(type) {
		case *types.Union:
			for i := 0; i < e.Len(); i++ {
				terms = append(terms, e.Term(i))
			}
		default:
			continue
		}
		if len(terms) == 1 {
			if _, isBasic := terms[0].Type().Underlying().(*types.Basic); !isBasic {
				for _, m := range insts {
					m[tp] = terms[0].Type()
				}
			}
			continue
		}
		allInt := true
		for _, t := range terms {
			b, ok := t.Type().Underlying().(*types.Basic)
			if !ok || b.Info()&types.IsInteger == 0 {
				allInt = false
			}
		}
		if !allInt {
			continue
		}
		var ni []map[*types.TypeParam]types.Type
		var nn []string
		for i, m := range insts {
			for _, t := range terms {
				c := map[*types.TypeParam]types.Type{}
				for k, v := range m {
					c[k] = v
				}
				c[tp] = t.Type()
				ni = append(ni, c)
				nn = append(nn, names[i]+"<"+tp.Obj().Name()+"="+t.Type().String()+">")
			}
		}
		insts, names = ni, nn
	}
	return insts, names
}

// finishContractCall: results and ensures of a contract call (used after a `repeats` emulation,
// where the heap effect is that of the repeated callback).
func (ex *Exec) finishContractCall(st *State, pre *State, c *Contract, fi *FuncInfo, ct *callTarget, name string, _ []modTarget, _ *writeSet, k func(*State, []Val)) {
	penv := ex.contractEnv(st, c, fi, ct)
	penv.old = pre
	var results []Val
	for i := 0; i < ct.sig.Results().Len(); i++ {
		v := ex.freshVal(st, "res_"+name, ct.sig.Results().At(i).Type())
		results = append(results, v)
		if i < len(c.Results) && c.Results[i] != "" {
			penv.bind[c.Results[i]] = v
		}
	}
	func() {
		defer ex.specRecover("ensures of " + name)
		for _, e := range c.Ensures {
			st.assume(penv.boolTerm(e.E))
		}
	}()
	k(st, results)
}

// repeatCallback emulates an external function that calls one of its function arguments an
// arbitrary number of times (rand.Shuffle's swap): the caller supplies an invariant
// (`loop CALLEE: invariant ...` in its own block, keyed by the callee's name); it must hold
// before, is preserved by one call of the callback with arbitrary arguments satisfying the
// contract's `repeatargs` condition, and is all that is known afterwards.
func (ex *Exec) repeatCallback(st *State, c *Contract, ct *callTarget, name string, k func(*State)) bool {
	// which argument is the callback
	pi := -1
	pnames := c.Params
	if ct.recv != nil && len(pnames) > 0 {
		pnames = pnames[1:]
	}
	for i, p := range pnames {
		if p == c.Repeats {
			pi = i
		}
	}
	if pi < 0 || pi >= len(ct.args) {
		return false
	}
	cb := ct.args[pi]
	if _, ok := ex.closures[cb.T]; !ok {
		return false
	}
	var spec *LoopSpec
	if ex.top.Spec != nil && ex.top.Spec.InLoops != nil {
		spec = ex.top.Spec.InLoops[ct.name]
		if spec == nil {
			spec = ex.top.Spec.InLoops[calleeName(ct.call)]
		}
	}
	if spec == nil {
		spec = &LoopSpec{}
	}
	lname := "repeat." + calleeName(ct.call)
	evalInvs := func(st *State, goal bool) []string {
		env := ex.specEnvFor(st, st.frame.fi)
		var ts []string
		for _, inv := range spec.Invs {
			if goal {
				ts = append(ts, env.goal(inv.E))
			} else {
				ts = append(ts, env.boolTerm(inv.E))
			}
		}
		return ts
	}
	for i, t := range evalInvs(st, true) {
		ex.oblige(st, lname+".entry", spec.Invs[i].Props, t, spec.Invs[i].Src, ct.call.Pos())
	}
	// havoc what the callback may write
	ci := ex.closures[cb.T]
	ex.preBoxNodes(st, ci.info, []ast.Node{ci.lit.Body})
	ws := ex.writeSetOf(&Frame{fi: ci.fi, info: ci.info, tsub: st.frame.tsub}, []ast.Node{ci.lit.Body})
	pre := st.snapshot()
	for obj := range ws.vars {
		if v, owner, ok := st.frame.lookupVar(obj); ok && !owner.boxed[obj] {
			owner.vars[obj] = Val{T: ex.w.freshConst("rep_"+obj.Name(), v.S), S: v.S, Go: v.Go}
		}
	}
	ex.havocHeap(st, pre, ws, nil)
	for _, g := range spec.Ghosts {
		if id, ok := g.LHS.(*SIdent); ok {
			if cur, has := st.frame.ghost[id.Name]; has {
				st.frame.ghost[id.Name] = Val{T: ex.w.freshConst("rep_ghost_"+id.Name, cur.S), S: cur.S, Go: cur.Go}
			}
		}
	}
	for _, t := range evalInvs(st, false) {
		st.assume(t)
	}
	// one arbitrary call
	body := st.fork()
	sig, _ := sigOf(cb.Go)
	var args []Val
	cenv := ex.contractEnv(body, c, nil, ct)
	for i := 0; i < sig.Params().Len(); i++ {
		a := ex.freshVal(body, "rep_arg", sig.Params().At(i).Type())
		args = append(args, a)
		cenv.bind[fmt.Sprintf("cbarg%d", i)] = a
	}
	func() {
		defer ex.specRecover("repeatargs of " + name)
		for _, r := range c.RepeatArgs {
			body.assume(cenv.boolTerm(r))
		}
	}()
	nct := &callTarget{kind: "closure", fnVal: cb, args: args, sig: sig, call: ct.call}
	ex.inlineClosure(body, nct, func(b2 *State, _ []Val) {
		genv := ex.specEnvFor(b2, b2.frame.fi)
		for i, a := range args {
			genv.bind[fmt.Sprintf("cbarg%d", i)] = a
		}
		func() {
			defer ex.specRecover("ghost code of repeated callback")
			for _, g := range spec.Ghosts {
				genv.ghostUpdate(g)
			}
		}()
		for i, t := range evalInvs(b2, true) {
			ex.oblige(b2, lname+".preserve", spec.Invs[i].Props, t, spec.Invs[i].Src, ct.call.Pos())
		}
		ex.frameObligations(b2, lname, ct.call.Pos())
	})
	k(st)
	return true
}
