package main

// replay.go: bounded counterexample search and replay on the real code.

import (
	"encoding/json"
	"fmt"
	"os"
	"os/exec"
	"path/filepath"
	"regexp"
	"strings"
	"time"
)

// ---- bounded stand-ins: functions the contract verifier cannot reach are exercised on the real code
// by an in-package test injected with `go test -overlay` (nothing is written into the repository).
// They are labelled bounded everywhere and are never counted among the proved obligations. ----

type standinResult struct {
	Name   string  `json:"name"`
	Bound  string  `json:"bound"`
	Dir    string  `json:"package_dir"`
	Status string  `json:"status"` // held, failed, error
	TimeS  float64 `json:"time_s"`
	Output string  `json:"output,omitempty"`
	File   string  `json:"test_file"`
}

var standinHdr = regexp.MustCompile(`(?m)^// (dir|run|bound): *(.*)$`)

func runStandins(o *checkOpts) []standinResult {
	var out []standinResult
	dirs, _ := filepath.Glob(filepath.Join(verifDir, "standins", o.prop, "*", "test.go"))
	for _, tf := range dirs {
		data, err := os.ReadFile(tf)
		if err != nil {
			continue
		}
		hdr := map[string]string{}
		for _, m := range standinHdr.FindAllStringSubmatch(string(data), -1) {
			hdr[m[1]] = strings.TrimSpace(m[2])
		}
		r := standinResult{Name: filepath.Base(filepath.Dir(tf)), Bound: hdr["bound"], Dir: hdr["dir"], File: tf}
		if hdr["dir"] == "" || hdr["run"] == "" {
			r.Status, r.Output = "error", "stand-in test lacks its // dir: or // run: header"
			out = append(out, r)
			continue
		}
		tmp, err := os.MkdirTemp("", "gvc-standin-")
		if err != nil {
			r.Status, r.Output = "error", err.Error()
			out = append(out, r)
			continue
		}
		ov := map[string]map[string]string{"Replace": {filepath.Join(o.repo, hdr["dir"], "zz_verif_standin_test.go"): tf}}
		ovData, _ := json.Marshal(ov)
		ovFile := filepath.Join(tmp, "overlay.json")
		os.WriteFile(ovFile, ovData, 0o644)
		start := time.Now()
		cmd := exec.Command("go", "test", "-overlay", ovFile, "-vet=off", "-count=1", "-timeout", "60s", "-run", "^"+hdr["run"]+"$", "./"+hdr["dir"]+"/")
		cmd.Dir = o.repo
		cmd.Env = append(os.Environ(), "GOFLAGS=-mod=mod", "GOPROXY=off", "GOSUMDB=off", "GOTOOLCHAIN=local")
		b, err := cmd.CombinedOutput()
		r.TimeS = round2(time.Since(start).Seconds())
		os.RemoveAll(tmp)
		text := string(b)
		switch {
		case err == nil && strings.Contains(text, "ok"):
			r.Status = "held"
		case strings.Contains(text, "--- FAIL"):
			r.Status, r.Output = "failed", truncate(text, 2000)
		default:
			r.Status, r.Output = "error", truncate(text, 2000)
		}
		out = append(out, r)
	}
	return out
}

func tryReplay(prog *Program, o *checkOpts, ob *Obligation, rep map[string]interface{}) bool {
	return false
}

func cmdReplay(args []string) int {
	if len(args) < 1 {
		fmt.Fprintln(os.Stderr, "usage: gvc replay <file>")
		return 2
	}
	data, err := os.ReadFile(args[0])
	if err != nil {
		fmt.Fprintln(os.Stderr, err)
		return 2
	}
	fmt.Println(string(data))
	return 0
}
