package main

// replay.go: bounded counterexample search and replay on the real code.

import (
	"encoding/json"
	"flag"
	"fmt"
	"os"
	"os/exec"
	"path/filepath"
	"regexp"
	"sort"
	"strings"
	"time"
)

// ---- bounded stand-ins: functions the contract verifier cannot reach are exercised on the real code
// by an in-package test injected with `go test -overlay` (nothing is written into the repository).
// They are labelled bounded everywhere and are never counted among the proved obligations. ----

type standinResult struct {
	Name   string  `json:"name"`
	Bound  string  `json:"bound"`
	Dir    string  `json:"package_dir"`
	Status string  `json:"status"` // held, failed, error
	TimeS  float64 `json:"time_s"`
	Output string  `json:"output,omitempty"`
	File   string  `json:"test_file"`
}

var standinHdr = regexp.MustCompile(`(?m)^// (dir|run|bound): *(.*)$`)

func runStandins(o *checkOpts) []standinResult {
	var out []standinResult
	dirs, _ := filepath.Glob(filepath.Join(verifDir, "standins", o.prop, "*", "test.go"))
	for _, tf := range dirs {
		data, err := os.ReadFile(tf)
		if err != nil {
			continue
		}
		hdr := map[string]string{}
		for _, m := range standinHdr.FindAllStringSubmatch(string(data), -1) {
			hdr[m[1]] = strings.TrimSpace(m[2])
		}
		r := standinResult{Name: filepath.Base(filepath.Dir(tf)), Bound: hdr["bound"], Dir: hdr["dir"], File: tf}
		if hdr["dir"] == "" || hdr["run"] == "" {
			r.Status, r.Output = "error", "stand-in test lacks its // dir: or // run: header"
			out = append(out, r)
			continue
		}
		tmp, err := os.MkdirTemp("", "gvc-standin-")
		if err != nil {
			r.Status, r.Output = "error", err.Error()
			out = append(out, r)
			continue
		}
		ov := map[string]map[string]string{"Replace": {filepath.Join(o.repo, hdr["dir"], "zz_verif_standin_test.go"): tf}}
		ovData, _ := json.Marshal(ov)
		ovFile := filepath.Join(tmp, "overlay.json")
		os.WriteFile(ovFile, ovData, 0o644)
		start := time.Now()
		cmd := exec.Command("go", "test", "-overlay", ovFile, "-vet=off", "-count=1", "-timeout", "60s", "-run", "^"+hdr["run"]+"$", "./"+hdr["dir"]+"/")
		cmd.Dir = o.repo
		cmd.Env = append(os.Environ(), "GOFLAGS=-mod=mod", "GOPROXY=off", "GOSUMDB=off", "GOTOOLCHAIN=local")
		b, err := cmd.CombinedOutput()
		r.TimeS = round2(time.Since(start).Seconds())
		os.RemoveAll(tmp)
		text := string(b)
		switch {
		case err == nil && strings.Contains(text, "ok"):
			r.Status = "held"
		case strings.Contains(text, "--- FAIL"):
			r.Status, r.Output = "failed", truncate(text, 2000)
		default:
			r.Status, r.Output = "error", truncate(text, 2000)
		}
		out = append(out, r)
	}
	return out
}

func tryReplay(prog *Program, o *checkOpts, ob *Obligation, rep map[string]interface{}) bool {
	if os.Getenv("GVC_NO_REPLAY") != "" {
		return false
	}
	var fi *FuncInfo
	fname, inst := ob.Func, ""
	if i := strings.Index(fname, "<"); i >= 0 {
		fname, inst = fname[:i], fname[i:]
	}
	if h := strings.Index(ob.Name, "#"); h > 0 && inst == "" {
		if i := strings.Index(ob.Name[:h], "<"); i >= 0 {
			inst = ob.Name[i:h] // the instantiation is part of the obligation's name: pkg.F<T=int16>#post0[0]
		}
	}
	for _, pk := range prog.Pkgs {
		for _, f := range pk.Funcs {
			if f.FullName() == fname {
				fi = f
			}
		}
	}
	if fi == nil || fi.Spec == nil {
		rep["replay"] = "not attempted: no function under contract behind this obligation"
		return false
	}
	ints, lens, mtext := modelHints(ob)
	if mtext != "" {
		rep["solver_model"] = mtext
	}
	r := replayFunctionInst(prog, o, fi, ints, lens, inst)
	if r.file != "" {
		rep["replay_test"] = r.file
		rep["replay_cmd"] = "go test -overlay <{Replace: {<pkgdir>/zz_verif_replay_test.go: " + r.file + "}}> -vet=off -run ^TestVerifReplay$ ./<pkgdir>/ (in /repo)"
	}
	if r.found {
		rep["replay"] = "failing input found on the real code"
		rep["failing_input"] = r.input
		rep["violated_clause"] = r.clause
		rep["replay_output"] = r.output
		return true
	}
	rep["replay"] = "no failing input found: " + r.reason
	return false
}

func cmdReplay(args []string) int {
	if len(args) < 1 {
		fmt.Fprintln(os.Stderr, "usage: gvc replay <file>")
		return 2
	}
	data, err := os.ReadFile(args[0])
	if err != nil {
		fmt.Fprintln(os.Stderr, err)
		return 2
	}
	fmt.Println(string(data))
	// a replay file of a free function carries the generated contract-evaluating test: run it again on
	// /repo's current tree (exit 1 when the violation reproduces, 0 when it does not)
	var rep map[string]interface{}
	if json.Unmarshal(data, &rep) != nil {
		return 0
	}
	tfile, _ := rep["replay_test"].(string)
	if tfile == "" {
		if sf, _ := rep["test_file"].(string); sf != "" { // bounded stand-in
			tfile = sf
		}
	}
	if tfile == "" {
		fmt.Println("gvc replay: no generated test in this file (the obligation was reported without a failing input)")
		return 0
	}
	src, err := os.ReadFile(tfile)
	if err != nil {
		fmt.Println("gvc replay: cannot read", tfile)
		return 0
	}
	pkgdir := ""
	if m := regexp.MustCompile(`(?m)^// dir: *(.*)$`).FindSubmatch(src); m != nil {
		pkgdir = strings.TrimSpace(string(m[1]))
	} else if fn, _ := rep["function"].(string); fn != "" {
		// the package directory of the function behind the obligation
		if prog, err := loadProgram("/repo"); err == nil {
			name := fn
			if i := strings.Index(name, "<"); i >= 0 {
				name = name[:i]
			}
			for _, pk := range prog.Pkgs {
				for _, f := range pk.Funcs {
					if f.FullName() == name && f.Decl != nil {
						if rel, err := filepath.Rel(prog.RepoDir, filepath.Dir(prog.Fset.Position(f.Decl.Pos()).Filename)); err == nil {
							pkgdir = rel
						}
					}
				}
			}
		}
	}
	if pkgdir == "" {
		fmt.Println("gvc replay: cannot tell the package of", tfile)
		return 0
	}
	tmp, err := os.MkdirTemp("", "gvc-replay-")
	if err != nil {
		return 0
	}
	defer os.RemoveAll(tmp)
	ov := map[string]map[string]string{"Replace": {filepath.Join("/repo", pkgdir, "zz_verif_replay_test.go"): tfile}}
	ovData, _ := json.Marshal(ov)
	ovFile := filepath.Join(tmp, "overlay.json")
	os.WriteFile(ovFile, ovData, 0o644)
	cmd := exec.Command("go", "test", "-overlay", ovFile, "-vet=off", "-count=1", "-timeout", "90s", "-run", "^(TestVerifReplay|TestVerifStandin.*)$", "./"+pkgdir+"/")
	cmd.Dir = "/repo"
	cmd.Env = append(os.Environ(), "GOFLAGS=-mod=mod", "GOPROXY=off", "GOSUMDB=off", "GOTOOLCHAIN=local")
	out, _ := cmd.CombinedOutput()
	text := string(out)
	fmt.Println("---- go test -overlay (real code, /repo's current tree) ----")
	fmt.Println(truncate(text, 3000))
	if strings.Contains(text, "REPLAY-VIOLATION") || strings.Contains(text, "--- FAIL") {
		fmt.Println("gvc replay: the violation reproduces on the current tree")
		return 1
	}
	fmt.Println("gvc replay: the violation does not reproduce on the current tree")
	return 0
}

// cmdReplayCheck: self-test of the replay generator. Runs the generated contract-evaluating test of
// every replayable function under contract on the tree as it is; on a tree where the proofs go
// through, a violation reported here is a defect of the spec-to-Go translation (or of a contract that
// is proved from wrong assumptions) and must be looked at before any replay result is believed.
func cmdReplayCheck(args []string) int {
	fs := flag.NewFlagSet("replaycheck", flag.ExitOnError)
	var o checkOpts
	fs.StringVar(&o.prop, "property", "", "property id (empty: all)")
	fs.StringVar(&o.repo, "repo", "/repo", "repository")
	fs.StringVar(&o.outDir, "out", "/tmp/gvc-replaycheck", "output directory")
	fs.Parse(args)
	repoDir = strings.TrimSuffix(o.repo, "/")
	prog, err := loadProgram(o.repo)
	if err != nil {
		fmt.Fprintln(os.Stderr, err)
		return 2
	}
	bad := 0
	var keys []string
	byKey := map[string]*FuncInfo{}
	for _, pk := range prog.Pkgs {
		for _, f := range pk.Funcs {
			if f.Spec == nil || f.Spec.Ext || f.Decl == nil || f.Decl.Recv != nil || strings.HasPrefix(f.Key, "verifClient") {
				continue
			}
			if o.prop != "" && !hasProp(f.Spec.Props, o.prop) {
				continue
			}
			keys = append(keys, f.FullName())
			byKey[f.FullName()] = f
		}
	}
	sort.Strings(keys)
	for _, k := range keys {
		f := byKey[k]
		oo := o
		if oo.prop == "" && len(f.Spec.Props) > 0 {
			oo.prop = f.Spec.Props[0]
		}
		r := replayFunction(prog, &oo, f, nil, nil)
		switch {
		case r.found:
			bad++
			fmt.Printf("REPLAYCHECK-VIOLATION %s %s\n", k, r.output)
		case r.tried && strings.HasPrefix(r.reason, "no candidate input"):
			fmt.Printf("replaycheck ok      %s (%d candidate inputs)\n", k, r.nCands)
		default:
			fmt.Printf("replaycheck skipped %s: %s\n", k, truncate(r.reason, 200))
		}
	}
	if bad > 0 {
		return 1
	}
	return 0
}
