package main

// replay.go: bounded counterexample search and replay on the real code.

import (
	"fmt"
	"os"
)

func tryReplay(prog *Program, o *checkOpts, ob *Obligation, rep map[string]interface{}) bool {
	return false
}

func cmdReplay(args []string) int {
	if len(args) < 1 {
		fmt.Fprintln(os.Stderr, "usage: gvc replay <file>")
		return 2
	}
	data, err := os.ReadFile(args[0])
	if err != nil {
		fmt.Fprintln(os.Stderr, err)
		return 2
	}
	fmt.Println(string(data))
	return 0
}
