package main

// contracts.go: reads the //@ contract blocks out of /repo/<pkg>/verif_contracts*.go.

import (
	"fmt"
	"os"
	"path/filepath"
	"regexp"
	"strconv"
	"strings"
)

type Clause struct {
	Kind  string   // requires, ensures, panics, pensures, invariant, assert, ...
	Props []string // property tags; empty = function default
	E     SExpr
	Src   string
	Ord   int // ordinal among clauses of the same kind in the block
	Trusted bool // trustens: assumed at call sites, not proved
}

type GhostUpd struct {
	LHS SExpr
	RHS SExpr
	Props []string // property label (layer) of the update; empty = always
	Src string
}

type LoopSpec struct {
	Invs      []*Clause
	Ghosts    []*GhostUpd // executed at the end of every iteration
	Decreases SExpr
	Modifies  []SExpr // loop-level frame: only these locations change in the loop
}

type Macro struct {
	Name   string
	Params []string
	Body   SExpr
	Src    string
	Pkg    string
}

type GhostField struct {
	Struct string // type name (package-local)
	Name   string
	Type   string // spec type text
	Pkg    string
}

type GhostParam struct{ Name, Type string }

// GhostMap: `ghostmap c *node[K, V] . field := EXPR` sets the ghost field of EVERY object c.
type GhostMap struct {
	Var, Type, Field string
	RHS              SExpr
	Src              string
}

func parseGhostMap(s string) (*GhostMap, error) {
	i := strings.Index(s, ":=")
	if i < 0 {
		return nil, fmt.Errorf("ghostmap needs :=")
	}
	lhs := strings.TrimSpace(s[:i])
	dot := strings.LastIndex(lhs, " . ")
	sp := strings.Index(lhs, " ")
	if dot < 0 || sp < 0 || sp >= dot {
		return nil, fmt.Errorf("ghostmap: expected `c TYPE . field := EXPR`")
	}
	e, err := parseSpec(strings.TrimSpace(s[i+2:]))
	if err != nil {
		return nil, err
	}
	return &GhostMap{Var: lhs[:sp], Type: strings.TrimSpace(lhs[sp:dot]), Field: strings.TrimSpace(lhs[dot+3:]), RHS: e, Src: s}, nil
}

type Dispatch struct {
	Callee string
	Ord    int
	Impl   string // pkg.Type.Method
}

type Contract struct {
	Key      string // "Deque.PushFront" or "positiveMod" (package-local) or "slices.Index" for ext
	Pkg      string // package path the block was declared in
	Ext      bool   // assume-ext: contract of a function outside the repo (never proved)
	SplitFirst bool // skip the attempt on the whole conjunction
	ThoroughOnly bool // verified in the thorough tier only (slow lemma clients)
	Derives string // lemma client: name of the function whose trusted postconditions it derives
	BudgetS int // per-solver time limit override (seconds)
	WithoutTrust bool // lemma client: trusted postconditions of the functions it calls are NOT assumed (it derives them)
	NoAlloc bool // the function allocates nothing (checked at its exits; callers keep their alloc sets)
	Trusted  bool   // repo function whose contract is assumed, not proved (reported)
	Props    []string
	Requires []*Clause
	Ensures  []*Clause
	Panics   []*Clause // panics when P
	PEnsures []*Clause
	Modifies []SExpr
	ModSrc   []string
	Ghosts   []*GhostUpd
	GParams  []GhostParam
	Loops    map[int]*LoopSpec
	InLoops  map[string]*LoopSpec // loops of inlined callees: "Reduce.0"
	InlineCalls []string
	IntWidth64 bool
	Repeats    string  // ext: this function-typed parameter is called an arbitrary number of times
	RepeatArgs []SExpr // condition on the arguments (cbarg0, cbarg1, ...) of each such call
	AnyKinds   []string // type parameters verified both as a concrete (non-interface) and as an interface type
	Dispatch []Dispatch
	Pure     bool
	Inline   bool
	Params   []string // for ext blocks: parameter names
	Results  []string // for ext blocks: result names
	File     string
	Line     int
	Anchors  []*Anchored
	GhostInit []*GhostUpd
	Invokes  []string
	Uses     []string
	Callback bool
	NoAutoRecvNonNil bool
	Closures map[int]*ClosureSpec // contracts of function literals of the body (k-th FuncLit in source order)
}

// ClosureSpec: a function literal verified on its own, from an arbitrary state that satisfies Requires
// (the state in which a callback handed to the runtime - time.AfterFunc - will run one day).
type ClosureSpec struct {
	Requires []*Clause
	Ensures  []*Clause
}

type Lemma struct {
	Name  string
	Pkg   string
	Props []string
	Vars  []SQVar
	Hyps  []SExpr
	Goal  SExpr
	Src   string
	Induct string // variable to induct on ("" = direct)
	Ctx    string // function whose parameters are the lemma's free names
}

type UFun struct {
	Name   string
	Params []string // parameter type texts ("_" = take the sort of the argument)
	Result string
	Pkg    string
}

type Anchored struct {
	When   string // before / after
	Callee string // name of the called function or method
	Ord    int
	Kind   string // ghost, assert, assume, havoc
	Havoc  []SExpr
	GhostMap *GhostMap
	Ghost  *GhostUpd
	E      SExpr
	Src    string
	Props  []string
}

type PkgSpec struct {
	StrictLayers bool // `layers`: labelled clauses of this package are active only when one of their properties is checked
	Sorts     map[string]bool
	UFuns     map[string]*UFun
	Callbacks map[string]*Contract // "Heap.indexChanged"
	Path      string
	Macros    map[string]*Macro
	Ghosts    map[string]*GhostField // "Struct.field"
	Contracts map[string]*Contract
	Lemmas    []*Lemma
	Axioms    []*Clause
}

var kwRe = regexp.MustCompile(`^(closure|pure|pred|ghostinit|ghost|func|props|requires|ensures|trustens|panics|pensures|modifies|ghostparam|uses|inlinecall|dispatch|intwidth|anykinds|repeats|repeatargs|loop|ext|lemma|axiom|inline|trusted|decreases|ispure|noalloc|layers|withouttrust|budget|derives|thoroughonly|splitfirst|params|results|end|sort|ufun|callback|before|after|invokes)\b`)

func loadPkgSpec(dir, pkgPath string) (*PkgSpec, error) {
	ps := &PkgSpec{Path: pkgPath, Macros: map[string]*Macro{}, Ghosts: map[string]*GhostField{}, Contracts: map[string]*Contract{}, Sorts: map[string]bool{}, UFuns: map[string]*UFun{}, Callbacks: map[string]*Contract{}}
	files, _ := filepath.Glob(filepath.Join(dir, "verif_contracts*.go"))
	for _, f := range files {
		data, err := os.ReadFile(f)
		if err != nil {
			return nil, err
		}
		if err := ps.parseFile(f, string(data)); err != nil {
			return nil, err
		}
	}
	return ps, nil
}

type rawLine struct {
	text string
	line int
}

func (ps *PkgSpec) parseFile(file, data string) error {
	// join continuation lines; only top-level //@ comments (column 0) are contract text,
	// indented //@ comments inside function bodies are in-body annotations handled by the executor.
	var lines []rawLine
	for i, l := range strings.Split(data, "\n") {
		var body string
		if strings.HasPrefix(l, "//@") {
			body = l[3:]
		} else if strings.HasPrefix(l, "// @") {
			body = l[4:]
		} else {
			continue
		}
		if idx := strings.Index(body, " //"); idx >= 0 { // trailing comment
			body = body[:idx]
		}
		t := strings.TrimSpace(body)
		if t == "" {
			continue
		}
		if kwRe.MatchString(t) || len(lines) == 0 {
			lines = append(lines, rawLine{t, i + 1})
		} else {
			lines[len(lines)-1].text += " " + t
		}
	}
	var cur *Contract
	for _, rl := range lines {
		t := rl.text
		kw := kwRe.FindString(t)
		rest := strings.TrimSpace(t[len(kw):])
		errf := func(format string, a ...interface{}) error {
			return fmt.Errorf("%s:%d: %s", file, rl.line, fmt.Sprintf(format, a...))
		}
		switch kw {
		case "pure", "pred":
			// NAME(p, q) = EXPR
			op := strings.Index(rest, "(")
			cp := strings.Index(rest, ")")
			eq := strings.Index(rest[cp:], "=")
			if op < 0 || cp < 0 || eq < 0 {
				return errf("bad macro %q", t)
			}
			name := strings.TrimSpace(rest[:op])
			var params []string
			for _, p := range strings.Split(rest[op+1:cp], ",") {
				p = strings.TrimSpace(p)
				if p != "" {
					params = append(params, strings.Fields(p)[0])
				}
			}
			body := strings.TrimSpace(rest[cp+eq+1:])
			e, err := parseSpec(body)
			if err != nil {
				return errf("%v", err)
			}
			ps.Macros[name] = &Macro{Name: name, Params: params, Body: e, Src: body, Pkg: ps.Path}
			cur = nil
		case "ghost":
			if cur != nil && strings.Contains(rest, ":=") {
				props, gb := splitProps(rest)
				g, err := parseGhostUpd(gb)
				if err != nil {
					return errf("%v", err)
				}
				g.Props = props
				cur.Ghosts = append(cur.Ghosts, g)
				continue
			}
			fs := strings.SplitN(rest, " ", 2)
			if len(fs) != 2 || !strings.Contains(fs[0], ".") {
				return errf("bad ghost field %q", t)
			}
			sf := strings.SplitN(fs[0], ".", 2)
			ps.Ghosts[fs[0]] = &GhostField{Struct: sf[0], Name: sf[1], Type: strings.TrimSpace(fs[1]), Pkg: ps.Path}
			cur = nil
		case "sort":
			ps.Sorts[strings.TrimSpace(rest)] = true
			cur = nil
		case "ufun":
			op := strings.Index(rest, "(")
			cp := strings.LastIndex(rest, ")")
			if op < 0 || cp < 0 {
				return errf("bad ufun %q", t)
			}
			uf := &UFun{Name: strings.TrimSpace(rest[:op]), Result: strings.TrimSpace(rest[cp+1:]), Pkg: ps.Path}
			for _, p := range splitTop(rest[op+1:cp], ',') {
				p = strings.TrimSpace(p)
				if p == "" {
					continue
				}
				fs := strings.SplitN(p, " ", 2)
				if len(fs) == 2 {
					uf.Params = append(uf.Params, strings.TrimSpace(fs[1]))
				} else {
					uf.Params = append(uf.Params, "_")
				}
			}
			ps.UFuns[uf.Name] = uf
			cur = nil
		case "ghostinit":
			g, err := parseGhostUpd(rest)
			if err != nil {
				return errf("%v", err)
			}
			cur.GhostInit = append(cur.GhostInit, g)
		case "invokes":
			cur.Invokes = append(cur.Invokes, strings.Fields(rest)...)
		case "before", "after":
			// before call NAME[k]: ghost L := R | assert E | assume E
			ci := strings.Index(rest, ":")
			if ci < 0 || cur == nil {
				return errf("bad anchored clause")
			}
			head := strings.Fields(rest[:ci])
			if len(head) != 2 || (head[0] != "call" && head[0] != "assign" && head[0] != "store") {
				return errf("anchor must be `call NAME[k]`, `assign NAME[k]` or `store NAME[k]`")
			}
			an := &Anchored{When: kw, Callee: head[1]}
			if bi := strings.Index(head[1], "["); bi >= 0 {
				an.Callee = head[1][:bi]
				an.Ord, _ = strconv.Atoi(strings.Trim(head[1][bi:], "[]"))
			}
			if head[0] == "assign" {
				an.Callee = "=" + an.Callee
			}
			if head[0] == "store" {
				// k-th statement `NAME[...] = v` (element or map store through the variable NAME)
				an.Callee = "[]=" + an.Callee
			}
			body := strings.TrimSpace(rest[ci+1:])
			switch {
			case strings.HasPrefix(body, "ghost "):
				props, gb := splitProps(strings.TrimSpace(body[6:]))
				g, err := parseGhostUpd(gb)
				if err != nil {
					return errf("%v", err)
				}
				an.Kind, an.Ghost, an.Src, an.Props = "ghost", g, body, props
			case strings.HasPrefix(body, "ghostmap "):
				props, gb := splitProps(strings.TrimSpace(body[9:]))
				gm, err := parseGhostMap(gb)
				if err != nil {
					return errf("%v", err)
				}
				an.Kind, an.GhostMap, an.Src, an.Props = "ghostmap", gm, body, props
			case strings.HasPrefix(body, "havoc "):
				an.Kind, an.Src = "havoc", body
				for _, part := range splitTop(strings.TrimSpace(body[6:]), ',') {
					e, err := parseSpec(strings.TrimSpace(part))
					if err != nil {
						return errf("%v", err)
					}
					an.Havoc = append(an.Havoc, e)
				}
			case strings.HasPrefix(body, "assert "), strings.HasPrefix(body, "assume "):
				an.Kind = body[:6]
				props, b := splitProps(strings.TrimSpace(body[7:]))
				e, err := parseSpec(b)
				if err != nil {
					return errf("%v", err)
				}
				an.E, an.Src, an.Props = e, b, props
			default:
				return errf("bad anchored clause body %q", body)
			}
			cur.Anchors = append(cur.Anchors, an)
		case "callback":
			name := rest
			var params []string
			if i := strings.Index(rest, "("); i >= 0 {
				name = strings.TrimSpace(rest[:i])
				j := strings.Index(rest, ")")
				for _, p := range strings.Split(rest[i+1:j], ",") {
					if p = strings.TrimSpace(p); p != "" {
						params = append(params, p)
					}
				}
			}
			cur = &Contract{Key: name, Pkg: ps.Path, Callback: true, Loops: map[int]*LoopSpec{}, File: file, Line: rl.line, Params: params}
			ps.Callbacks[name] = cur
		case "func", "ext":
			name := rest
			var params, results []string
			if i := strings.Index(rest, "("); i >= 0 {
				name = strings.TrimSpace(rest[:i])
				j := strings.Index(rest, ")")
				for _, p := range strings.Split(rest[i+1:j], ",") {
					if p = strings.TrimSpace(p); p != "" {
						params = append(params, p)
					}
				}
				r := strings.TrimSpace(rest[j+1:])
				r = strings.Trim(r, "()")
				for _, p := range strings.Split(r, ",") {
					if p = strings.TrimSpace(p); p != "" {
						results = append(results, p)
					}
				}
			}
			cur = &Contract{Key: name, Pkg: ps.Path, Ext: kw == "ext", Loops: map[int]*LoopSpec{}, File: file, Line: rl.line, Params: params, Results: results}
			if _, dup := ps.Contracts[name]; dup {
				return errf("duplicate contract for %s", name)
			}
			ps.Contracts[name] = cur
		case "end":
			cur = nil
		case "props":
			if cur == nil {
				return errf("props outside a block")
			}
			cur.Props = strings.Fields(strings.ReplaceAll(rest, ",", " "))
		case "ispure":
			cur.Pure = true
		case "noalloc":
			cur.NoAlloc = true
		case "withouttrust":
			cur.WithoutTrust = true
		case "splitfirst":
			// prove conjunctive goals of this function conjunct by conjunct right away
			cur.SplitFirst = true
		case "thoroughonly":
			cur.ThoroughOnly = true
		case "derives":
			// derives F: this lemma client proves F's trusted postconditions from F's proved ones
			cur.Derives = strings.TrimSpace(rest)
			cur.WithoutTrust = true
		case "budget":
			// budget N: per-solver time limit (seconds) for the obligations of this function, when larger than the tier's
			cur.BudgetS, _ = strconv.Atoi(strings.TrimSpace(rest))
		case "layers":
			ps.StrictLayers = true
		case "inline":
			cur.Inline = true
		case "trusted":
			cur.Trusted = true
		case "requires", "ensures", "trustens", "pensures", "panics", "axiom":
			props, body := splitProps(rest)
			if kw == "panics" {
				body = strings.TrimSpace(strings.TrimPrefix(strings.TrimSpace(body), "when"))
			}
			e, err := parseSpec(body)
			if err != nil {
				return errf("%v", err)
			}
			cl := &Clause{Kind: kw, Props: props, E: e, Src: body}
			if kw == "axiom" {
				ps.Axioms = append(ps.Axioms, cl)
				continue
			}
			if cur == nil {
				return errf("%s outside a block", kw)
			}
			switch kw {
			case "requires":
				cl.Ord = len(cur.Requires)
				cur.Requires = append(cur.Requires, cl)
			case "ensures", "trustens":
				// trustens: a postcondition callers may use but that is NOT proved for the function
				// (reported as an assumption in the evidence)
				cl.Ord = len(cur.Ensures)
				cl.Trusted = kw == "trustens"
				cur.Ensures = append(cur.Ensures, cl)
			case "pensures":
				cl.Ord = len(cur.PEnsures)
				cur.PEnsures = append(cur.PEnsures, cl)
			case "panics":
				cl.Ord = len(cur.Panics)
				cur.Panics = append(cur.Panics, cl)
			}
		case "modifies":
			if cur == nil {
				return errf("modifies outside a block")
			}
			for _, part := range splitTop(rest, ',') {
				part = strings.TrimSpace(part)
				if part == "" {
					continue
				}
				e, err := parseSpec(part)
				if err != nil {
					return errf("%v", err)
				}
				cur.Modifies = append(cur.Modifies, e)
				cur.ModSrc = append(cur.ModSrc, part)
			}
		case "dispatch":
			fs := strings.Fields(rest)
			if len(fs) != 2 {
				return errf("dispatch CALL[k] pkg.Type.Method")
			}
			d := Dispatch{Callee: fs[0], Impl: fs[1]}
			if bi := strings.Index(fs[0], "["); bi >= 0 {
				d.Callee = fs[0][:bi]
				d.Ord, _ = strconv.Atoi(strings.Trim(fs[0][bi:], "[]"))
			}
			cur.Dispatch = append(cur.Dispatch, d)
		case "repeats":
			cur.Repeats = strings.TrimSpace(rest)
		case "repeatargs":
			e, err := parseSpec(rest)
			if err != nil {
				return errf("%v", err)
			}
			cur.RepeatArgs = append(cur.RepeatArgs, e)
		case "anykinds":
			cur.AnyKinds = append(cur.AnyKinds, strings.Fields(strings.ReplaceAll(rest, ",", " "))...)
		case "intwidth":
			cur.IntWidth64 = strings.TrimSpace(rest) == "64"
		case "inlinecall":
			cur.InlineCalls = append(cur.InlineCalls, strings.Fields(strings.ReplaceAll(rest, ",", " "))...)
		case "uses":
			cur.Uses = append(cur.Uses, strings.Fields(strings.ReplaceAll(rest, ",", " "))...)
		case "ghostparam":
			fs := strings.SplitN(rest, " ", 2)
			if len(fs) != 2 {
				return errf("bad ghostparam")
			}
			cur.GParams = append(cur.GParams, GhostParam{fs[0], strings.TrimSpace(fs[1])})
		case "closure":
			// closure K: requires EXPR | closure K: ensures EXPR
			ci := strings.Index(rest, ":")
			if ci < 0 || cur == nil {
				return errf("bad closure clause")
			}
			kk, err := strconv.Atoi(strings.TrimSpace(rest[:ci]))
			if err != nil {
				return errf("closure K: needs an ordinal")
			}
			if cur.Closures == nil {
				cur.Closures = map[int]*ClosureSpec{}
			}
			if cur.Closures[kk] == nil {
				cur.Closures[kk] = &ClosureSpec{}
			}
			body := strings.TrimSpace(rest[ci+1:])
			var kind string
			switch {
			case strings.HasPrefix(body, "requires"):
				kind = "requires"
			case strings.HasPrefix(body, "ensures"):
				kind = "ensures"
			default:
				return errf("closure clause must be requires or ensures")
			}
			props, b := splitProps(strings.TrimSpace(body[len(kind):]))
			e, err2 := parseSpec(b)
			if err2 != nil {
				return errf("%v", err2)
			}
			cl := &Clause{Kind: "closure." + kind, Props: props, E: e, Src: b}
			if kind == "requires" {
				cur.Closures[kk].Requires = append(cur.Closures[kk].Requires, cl)
			} else {
				cl.Ord = len(cur.Closures[kk].Ensures)
				cur.Closures[kk].Ensures = append(cur.Closures[kk].Ensures, cl)
			}
		case "loop":
			// loop K: invariant EXPR | loop K: ghost LHS := EXPR | loop K: decreases EXPR
			ci := strings.Index(rest, ":")
			if ci < 0 || cur == nil {
				return errf("bad loop clause")
			}
			var ls *LoopSpec
			if k, err := strconv.Atoi(strings.TrimSpace(rest[:ci])); err == nil {
				ls = cur.Loops[k]
				if ls == nil {
					ls = &LoopSpec{}
					cur.Loops[k] = ls
				}
			} else {
				key := strings.TrimSpace(rest[:ci])
				if cur.InLoops == nil {
					cur.InLoops = map[string]*LoopSpec{}
				}
				ls = cur.InLoops[key]
				if ls == nil {
					ls = &LoopSpec{}
					cur.InLoops[key] = ls
				}
			}
			body := strings.TrimSpace(rest[ci+1:])
			switch {
			case strings.HasPrefix(body, "invariant"):
				props, b := splitProps(strings.TrimSpace(body[len("invariant"):]))
				e, err := parseSpec(b)
				if err != nil {
					return errf("%v", err)
				}
				ls.Invs = append(ls.Invs, &Clause{Kind: "invariant", Props: props, E: e, Src: b, Ord: len(ls.Invs)})
			case strings.HasPrefix(body, "ghost"):
				g, err := parseGhostUpd(strings.TrimSpace(body[len("ghost"):]))
				if err != nil {
					return errf("%v", err)
				}
				ls.Ghosts = append(ls.Ghosts, g)
			case strings.HasPrefix(body, "modifies"):
				for _, part := range splitTop(strings.TrimSpace(body[len("modifies"):]), ',') {
					part = strings.TrimSpace(part)
					if part == "" {
						continue
					}
					e, err := parseSpec(part)
					if err != nil {
						return errf("%v", err)
					}
					ls.Modifies = append(ls.Modifies, e)
				}
			case strings.HasPrefix(body, "decreases"):
				e, err := parseSpec(strings.TrimSpace(body[len("decreases"):]))
				if err != nil {
					return errf("%v", err)
				}
				ls.Decreases = e
			default:
				return errf("bad loop clause %q", body)
			}
		case "lemma":
			// lemma NAME [Cxx]: forall ... :: hyp ==> goal   (proved directly)
			ci := strings.Index(rest, ":")
			if ci < 0 {
				return errf("bad lemma")
			}
			head := strings.Fields(rest[:ci])
			body := strings.TrimSpace(rest[ci+1:])
			e, err := parseSpec(body)
			if err != nil {
				return errf("%v", err)
			}
			lm := &Lemma{Name: head[0], Pkg: ps.Path, Goal: e, Src: body}
			for _, h := range head[1:] {
				if strings.HasPrefix(h, "induct=") {
					lm.Induct = strings.TrimPrefix(h, "induct=")
				} else if strings.HasPrefix(h, "@") {
					lm.Ctx = strings.TrimPrefix(h, "@")
				} else {
					lm.Props = append(lm.Props, h)
				}
			}
			ps.Lemmas = append(ps.Lemmas, lm)
			cur = nil
		default:
			return errf("unknown contract line %q", t)
		}
	}
	return nil
}

var propsRe = regexp.MustCompile(`^((C[0-9]{2,3})(,C[0-9]{2,3})*):\s*`)

func splitProps(s string) ([]string, string) {
	s = strings.TrimSpace(s)
	if m := propsRe.FindStringSubmatch(s); m != nil {
		return strings.Split(m[1], ","), s[len(m[0]):]
	}
	return nil, s
}

func parseGhostUpd(s string) (*GhostUpd, error) {
	i := strings.Index(s, ":=")
	if i < 0 {
		return nil, fmt.Errorf("ghost update needs := in %q", s)
	}
	l, err := parseSpec(strings.TrimSpace(s[:i]))
	if err != nil {
		return nil, err
	}
	r, err := parseSpec(strings.TrimSpace(s[i+2:]))
	if err != nil {
		return nil, err
	}
	return &GhostUpd{LHS: l, RHS: r, Src: s}, nil
}

func splitTop(s string, sep byte) []string {
	var out []string
	depth := 0
	last := 0
	for i := 0; i < len(s); i++ {
		switch s[i] {
		case '(', '[', '{':
			depth++
		case ')', ']', '}':
			depth--
		default:
			if s[i] == sep && depth == 0 {
				out = append(out, s[last:i])
				last = i + 1
			}
		}
	}
	out = append(out, s[last:])
	return out
}
