package main

// solve.go: SMT-LIB emission and the three-solver race.

import (
	"regexp"
	"bytes"
	"context"
	"crypto/sha256"
	"encoding/hex"
	"fmt"
	"os"
	"os/exec"
	"path/filepath"
	"strings"
	"sync"
	"time"
)

func (w *World) script(o *Obligation, forModel bool) string {
	return w.scriptOpt(o, forModel, false)
}

func (w *World) scriptOpt(o *Obligation, forModel bool, dropWeak bool) string {
	var b strings.Builder
	if forModel {
		b.WriteString("(set-option :produce-models true)\n")
	}
	b.WriteString("(set-logic ALL)\n")
	for _, d := range w.sortDecls {
		b.WriteString(d)
		b.WriteByte('\n')
	}
	for _, d := range w.decls {
		b.WriteString(d)
		b.WriteByte('\n')
	}
	for _, a := range w.axioms {
		if dropWeak && w.weak[a] {
			continue
		}
		b.WriteString("(assert " + a + ")\n")
	}
	for _, g := range sortedKeys(w.distinct) {
		if xs := w.distinct[g]; len(xs) > 1 {
			b.WriteString("(assert (distinct " + strings.Join(xs, " ") + "))\n")
		}
	}
	for _, a := range o.Assumes {
		if dropWeak && w.weak[a] {
			continue
		}
		b.WriteString("(assert " + a + ")\n")
	}
	b.WriteString("(assert (not " + o.Goal + "))\n")
	b.WriteString("(check-sat)\n")
	return b.String()
}

type solverSpec struct {
	name string
	args func(file string, timeoutS int) []string
}

var solvers = []solverSpec{
	{"z3-4.8.12", func(f string, t int) []string { return []string{"z3", "-smt2", fmt.Sprintf("-T:%d", t), f} }},
	{"z3-5.1.0", func(f string, t int) []string { return []string{"z3-new", "-smt2", fmt.Sprintf("-T:%d", t), f} }},
	{"cvc5-1.0.3", func(f string, t int) []string {
		return []string{"cvc5", "--lang=smt2", fmt.Sprintf("--tlimit=%d", t*1000), "--full-saturate-quant", f}
	}},
}

type solveResult struct {
	status string // unsat, sat, unknown
	solver string
	timeS  float64
	output string
	confirmedBy string
}

var cacheDir = "/verif/out/cache"

func runSolver(ctx context.Context, s solverSpec, file string, timeoutS int) (string, string) {
	args := s.args(file, timeoutS)
	cctx, cancel := context.WithTimeout(ctx, time.Duration(timeoutS+3)*time.Second)
	defer cancel()
	cmd := exec.CommandContext(cctx, args[0], args[1:]...)
	var out bytes.Buffer
	cmd.Stdout = &out
	cmd.Stderr = &out
	_ = cmd.Run()
	text := out.String()
	for _, line := range strings.Split(text, "\n") {
		line = strings.TrimSpace(line)
		switch line {
		case "unsat", "sat", "unknown":
			return line, text
		}
		if strings.HasPrefix(line, "(error") {
			break
		}
	}
	if strings.Contains(text, "timeout") {
		return "unknown", text
	}
	if ctx.Err() != nil {
		return "cancelled", text
	}
	return "error", text
}

// solve races the solvers on one script. needTwo: require confirmation by a second solver
// (thorough tier); the confirmation is best effort and recorded.
func solve(script string, file string, timeoutS int, needTwo bool) solveResult {
	return solveAlt(script, "", file, timeoutS, needTwo)
}

// solveAlt: like solve, and additionally races z3 5.1 / z3 4.8 on altScript, a variant of the same
// obligation with fewer assumptions (the typing axioms dropped). Only `unsat` counts for the variant
// (a proof from fewer assumptions is a proof; a model of it means nothing).
func solveAlt(script string, altScript string, file string, timeoutS int, needTwo bool) solveResult {
	sum := sha256.Sum256([]byte(script))
	key := hex.EncodeToString(sum[:])
	cfile := filepath.Join(cacheDir, key)
	if !needTwo {
		if data, err := os.ReadFile(cfile); err == nil {
			parts := strings.SplitN(string(data), "\n", 2)
			return solveResult{status: "unsat", solver: strings.TrimSpace(parts[0]) + " (cached)", timeS: 0}
		}
	}
	if err := os.WriteFile(file, []byte(script), 0o644); err != nil {
		return solveResult{status: "error", output: err.Error()}
	}
	ctx, cancel := context.WithCancel(context.Background())
	defer cancel()
	type res struct {
		status, out, solver string
		t                   float64
	}
	ch := make(chan res, len(solvers)+2)
	start := time.Now()
	jobs := 0
	for _, s := range solvers {
		s := s
		jobs++
		go func() {
			st, out := runSolver(ctx, s, file, timeoutS)
			ch <- res{st, out, s.name, time.Since(start).Seconds()}
		}()
	}
	if altScript != "" && altScript != script {
		altFile := strings.TrimSuffix(file, ".smt2") + ".noty.smt2"
		if err := os.WriteFile(altFile, []byte(altScript), 0o644); err == nil {
			for _, s := range solvers[:2] {
				s := s
				jobs++
				go func() {
					st, out := runSolver(ctx, s, altFile, timeoutS)
					if st == "sat" {
						st = "unknown" // fewer assumptions: a model of the variant refutes nothing
					}
					ch <- res{st, out, "noty:" + s.name, time.Since(start).Seconds()}
				}()
			}
		}
	}
	var outs []string
	var final *res
	var confirmed string
	errs := 0
	for i := 0; i < jobs; i++ {
		r := <-ch
		if r.status == "error" {
			errs++
		}
		outs = append(outs, fmt.Sprintf("[%s %.2fs] %s", r.solver, r.t, strings.TrimSpace(truncate(r.out, 400))))
		if r.status == "unsat" {
			if final == nil {
				rr := r
				final = &rr
				if !needTwo {
					break
				}
			} else if confirmed == "" {
				confirmed = r.solver
				break
			}
		}
		if r.status == "sat" && final == nil {
			rr := r
			final = &rr
			break
		}
	}
	cancel()
	if final == nil {
		return solveResult{status: "unknown", output: strings.Join(outs, "\n"), timeS: time.Since(start).Seconds()}
	}
	if final.status == "unsat" {
		_ = os.MkdirAll(cacheDir, 0o755)
		_ = os.WriteFile(cfile, []byte(final.solver+"\n"), 0o644)
	}
	return solveResult{status: final.status, solver: final.solver, timeS: final.t, output: strings.Join(outs, "\n"), confirmedBy: confirmed}
}

func truncate(s string, n int) string {
	if len(s) > n {
		return s[:n] + "..."
	}
	return s
}

// solveAll discharges obligations in parallel.
func solveAll(items []*solveItem, timeoutS int, needTwo bool, workers int) {
	var wg sync.WaitGroup
	ch := make(chan *solveItem)
	for i := 0; i < workers; i++ {
		wg.Add(1)
		go func() {
			defer wg.Done()
			for it := range ch {
				o := it.o
				if o.Goal == "true" {
					o.Status, o.Solver = "proved", "trivial"
					continue
				}
				script := it.w.script(o, false)
				to := timeoutS
				if o.BudgetS > to {
					to = o.BudgetS
				}
				if o.Vacuity && to > 4 {
					to = 4 // a contradictory precondition is refuted quickly; "unknown" is the expected answer
				}
				var r solveResult
				if o.SplitFirst && !o.Vacuity && len(splitGoal(o.Goal)) > 1 {
					r = solveResult{status: "unknown", output: "[splitfirst] whole goal not attempted"}
					os.WriteFile(it.file, []byte(script), 0o644)
				} else {
					alt := ""
					if !o.Vacuity {
						alt = it.w.scriptOpt(o, false, true)
					}
					r = solveAlt(script, alt, it.file, to, needTwo && !o.Vacuity)
				}
				o.Solver, o.TimeS, o.Output, o.SMTFile = r.solver, r.timeS, r.output, it.file
				if r.confirmedBy != "" {
					o.Solver += "+" + r.confirmedBy
				}
				switch {
				case o.Vacuity:
					// a cover obligation must NOT be provable
					if r.status == "unsat" {
						o.Status = "failed"
						o.Output = "precondition/path is unsatisfiable: everything after it would be vacuously proved\n" + o.Output
					} else {
						o.Status = "proved"
						o.Solver = "cover(" + r.status + ")"
					}
				case r.status == "unsat":
					o.Status = "proved"
				case r.status == "sat":
					o.Status = "failed"
				default:
					o.Status = "unknown"
					// retry 1: without the typing axioms (fewer useless instantiations; dropping
					// assumptions is sound)
					if !o.SplitFirst {
						if r2 := solve(it.w.scriptOpt(o, false, true), strings.TrimSuffix(it.file, ".smt2")+".noty.smt2", to, false); r2.status == "unsat" {
							o.Status, o.Solver, o.TimeS = "proved", "noty:"+r2.solver, r.timeS+r2.timeS
							continue
						}
					}
					// retry 2: split the goal into its conjuncts and prove each on its own
					if parts := splitGoal(o.Goal); len(parts) > 1 {
						all := true
						tot := r.timeS
						var used []string
						for pi, part := range parts {
							po := *o
							po.Goal = part
							pr := solve(it.w.script(&po, false), fmt.Sprintf("%s.part%d.smt2", strings.TrimSuffix(it.file, ".smt2"), pi), to, false)
							if pr.status != "unsat" && pr.status != "sat" {
								if pr2 := solve(it.w.scriptOpt(&po, false, true), fmt.Sprintf("%s.part%d.noty.smt2", strings.TrimSuffix(it.file, ".smt2"), pi), to, false); pr2.status == "unsat" {
									pr = pr2
								}
							}
							tot += pr.timeS
							if pr.status != "unsat" && pr.status != "sat" {
								// retry 3: case split on which object a reference skolem of the goal is
								ok, t3 := caseSplit(it, &po, to, fmt.Sprintf("%s.part%d", strings.TrimSuffix(it.file, ".smt2"), pi))
								tot += t3
								if ok {
									pr.status, pr.solver = "unsat", "cases"
								}
							}
							if pr.status != "unsat" {
								all = false
								o.Output += fmt.Sprintf("\n[split %d/%d] %s: %s", pi+1, len(parts), pr.status, truncate(part, 200))
								if pr.status == "sat" {
									o.Status = "failed"
								}
								break
							}
							used = append(used, pr.solver)
						}
						o.TimeS = tot
						if all {
							o.Status = "proved"
							o.Solver = "split(" + fmt.Sprint(len(parts)) + "):" + used[0]
						}
					}
				}
			}
		}()
	}
	for _, it := range items {
		ch <- it
	}
	close(ch)
	wg.Wait()
}

var skRefRe = regexp.MustCompile(`g_sk_[A-Za-z0-9_]+![0-9]+`)

// caseSplit proves goal under each of the cases sk == term (term from o.CaseTerms) and under the
// case that sk differs from all of them, for the first reference-sorted skolem constant of the goal.
func caseSplit(it *solveItem, po *Obligation, to int, base string) (bool, float64) {
	if len(po.CaseTerms) == 0 {
		return false, 0
	}
	sk := ""
	for _, m := range skRefRe.FindAllString(po.Goal, -1) {
		if it.w.constSort[m] == "Ref" {
			sk = m
			break
		}
	}
	if sk == "" {
		return false, 0
	}
	tot := 0.0
	var neqs []string
	cases := [][]string{}
	for _, t := range po.CaseTerms {
		cases = append(cases, []string{"(= " + sk + " " + t + ")"})
		neqs = append(neqs, "(not (= "+sk+" "+t+"))")
	}
	cases = append(cases, neqs)
	for ci, extra := range cases {
		co := *po
		co.Assumes = append(append([]string{}, po.Assumes...), extra...)
		r := solve(it.w.script(&co, false), fmt.Sprintf("%s.case%d.smt2", base, ci), to, false)
		tot += r.timeS
		if r.status != "unsat" {
			if r2 := solve(it.w.scriptOpt(&co, false, true), fmt.Sprintf("%s.case%d.noty.smt2", base, ci), to, false); r2.status == "unsat" {
				tot += r2.timeS
				continue
			}
			return false, tot
		}
	}
	return true, tot
}

type solveItem struct {
	o    *Obligation
	w    *World
	file string
}

// splitGoal splits `(and a b ...)` and `(=> h (and a b ...))` into separate goals.
func splitGoal(g string) []string {
	g = strings.TrimSpace(g)
	args := sexprArgs(g)
	if len(args) == 0 {
		return nil
	}
	switch args[0] {
	case "and":
		var out []string
		for _, a := range args[1:] {
			if sub := splitGoal(a); len(sub) > 1 {
				out = append(out, sub...)
			} else {
				out = append(out, a)
			}
		}
		return out
	case "=>":
		if len(args) == 3 {
			sub := splitGoal(args[2])
			if len(sub) > 1 {
				var out []string
				for _, s := range sub {
					out = append(out, "(=> "+args[1]+" "+s+")")
				}
				return out
			}
		}
	}
	return nil
}

// sexprArgs returns the head and arguments of a parenthesised s-expression.
func sexprArgs(s string) []string {
	if len(s) < 2 || s[0] != '(' || s[len(s)-1] != ')' {
		return nil
	}
	s = s[1 : len(s)-1]
	var out []string
	depth := 0
	start := -1
	inBar := false
	for i := 0; i < len(s); i++ {
		c := s[i]
		if inBar {
			if c == '|' {
				inBar = false
			}
			continue
		}
		switch {
		case c == '|':
			inBar = true
			if start < 0 {
				start = i
			}
		case c == '(':
			if depth == 0 && start < 0 {
				start = i
			}
			depth++
		case c == ')':
			depth--
			if depth == 0 {
				out = append(out, s[start:i+1])
				start = -1
			}
		case c == ' ' || c == '\n' || c == '\t':
			if depth == 0 && start >= 0 {
				out = append(out, s[start:i])
				start = -1
			}
		default:
			if start < 0 {
				start = i
			}
		}
	}
	if start >= 0 {
		out = append(out, s[start:])
	}
	return out
}
