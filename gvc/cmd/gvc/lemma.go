package main

import "fmt"

// lemmaObligations: a lemma is a closed formula over the parameters of a context function,
// proved once for an arbitrary state (optionally by induction on an integer variable) and then
// available through `uses NAME` at the entry of any function whose parameter names bind the
// same free names.
func (ex *Exec) lemmaObligations(pk *Package, lm *Lemma) (obs []*Obligation, err error) {
	defer func() {
		if r := recover(); r != nil {
			switch e := r.(type) {
			case specFail:
				err = fmt.Errorf("%s", e.msg)
			case unsupportedErr:
				err = e
			default:
				panic(r)
			}
		}
	}()
	name := pk.Short + ".lemma." + lm.Name
	var st *State
	var env *SpecEnv
	if lm.Ctx != "" {
		fi := pk.Funcs[lm.Ctx]
		if fi == nil {
			return nil, fmt.Errorf("lemma context function %s not found", lm.Ctx)
		}
		st, env = ex.entryState(fi, &Contract{Key: fi.Key, Pkg: pk.Path, Loops: map[int]*LoopSpec{}, Props: lm.Props})
	} else {
		st = &State{heap: map[string]string{}}
		n := 0
		env = &SpecEnv{ex: ex, st: st, bind: map[string]Val{}, pkg: pk, qn: &n}
	}
	mk := func(kind, goal, desc string) *Obligation {
		as := append(st.assumes[:len(st.assumes):len(st.assumes)], ex.goalIx...)
		ex.goalIx = nil
		return &Obligation{Name: fmt.Sprintf("%s#%s[0]", name, kind), Kind: kind, Func: name, Props: lm.Props, Assumes: as, Goal: goal, Desc: desc}
	}
	if lm.Induct == "" {
		return []*Obligation{mk("lemma", env.goal(lm.Goal), lm.Src)}, nil
	}
	// shape: HYP ==> forall j int {..} :: BODY   (or just the quantifier)
	var hyp SExpr
	goal := lm.Goal
	if b, ok := goal.(*SBin); ok && b.Op == "==>" {
		hyp, goal = b.L, b.R
	}
	q, ok := goal.(*SQuant)
	if !ok || !q.Forall || len(q.Vars) != 1 || q.Vars[0].Name != lm.Induct {
		return nil, fmt.Errorf("inductive lemma must have the shape  [H ==>] forall %s int :: BODY", lm.Induct)
	}
	if hyp != nil {
		st.assume(env.boolTerm(hyp))
	}
	j0 := ex.w.freshConst("ind_"+lm.Induct, sInt)
	// induction hypothesis: the body for every smaller value
	ih := &SQuant{Forall: true, Vars: q.Vars, Triggers: q.Triggers, Body: &SBin{Op: "==>", L: &SBin{Op: "<", L: &SIdent{lm.Induct}, R: &SIdent{"$ind0"}}, R: q.Body}}
	c := env.child()
	c.bind["$ind0"] = Val{T: j0, S: sInt}
	st.assume(c.boolTerm(ih))
	c2 := env.child()
	c2.bind[lm.Induct] = Val{T: j0, S: sInt}
	return []*Obligation{mk("lemma.step", c2.goal(q.Body), "induction step of "+lm.Src)}, nil
}
