package main

import "fmt"

// lemmaObligations: a lemma is a closed formula proved once.
func (ex *Exec) lemmaObligations(pk *Package, lm *Lemma) (obs []*Obligation, err error) {
	defer func() {
		if r := recover(); r != nil {
			switch e := r.(type) {
			case specFail:
				err = fmt.Errorf("%s", e.msg)
			case unsupportedErr:
				err = e
			default:
				panic(r)
			}
		}
	}()
	st := &State{heap: map[string]string{}}
	n := 0
	env := &SpecEnv{ex: ex, st: st, bind: map[string]Val{}, pkg: pk, qn: &n}
	goal := env.boolTerm(lm.Goal)
	ob := &Obligation{Name: pk.Short + ".lemma." + lm.Name + "#lemma[0]", Kind: "lemma", Func: pk.Short + ".lemma." + lm.Name, Props: lm.Props, Assumes: st.assumes, Goal: goal, Desc: lm.Src}
	return []*Obligation{ob}, nil
}
