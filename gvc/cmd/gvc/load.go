package main

// load.go: loading /repo with go/packages, indexing functions, contracts, type substitution.

import (
	"fmt"
	"go/ast"
	"go/token"
	"go/types"
	"path/filepath"
	"strings"

	"golang.org/x/tools/go/packages"
)

type Package struct {
	Path  string
	Short string
	P     *packages.Package
	Spec  *PkgSpec
	Funcs map[string]*FuncInfo
}

type Program struct {
	Fset      *token.FileSet
	Pkgs      map[string]*Package
	byObj     map[*types.Func]*FuncInfo
	Ext       map[string]*Contract // "slices.Index" -> contract
	ExtOwner  map[string]*PkgSpec
	AllSpecs  []*PkgSpec
	RepoDir   string
	modPrefix string
}

func loadProgram(repo string) (*Program, error) {
	cfg := &packages.Config{
		Mode:       packages.NeedName | packages.NeedSyntax | packages.NeedTypes | packages.NeedTypesInfo | packages.NeedFiles | packages.NeedImports | packages.NeedDeps | packages.NeedCompiledGoFiles,
		Dir:        repo,
		BuildFlags: []string{"-tags=verif"},
		Env:        append(osEnviron(), "GOFLAGS=-mod=mod", "GOPROXY=off", "GOSUMDB=off", "GOTOOLCHAIN=local"),
	}
	pkgs, err := packages.Load(cfg, "./...")
	if err != nil {
		return nil, err
	}
	prog := &Program{Pkgs: map[string]*Package{}, byObj: map[*types.Func]*FuncInfo{}, Ext: map[string]*Contract{}, ExtOwner: map[string]*PkgSpec{}, RepoDir: repo}
	for _, p := range pkgs {
		if len(p.Errors) > 0 {
			return nil, fmt.Errorf("package %s: %v", p.PkgPath, p.Errors[0])
		}
		prog.Fset = p.Fset
		pk := &Package{Path: p.PkgPath, Short: p.Name, P: p, Funcs: map[string]*FuncInfo{}}
		// relative dir
		if len(p.GoFiles) == 0 {
			continue
		}
		dir := filepath.Dir(p.GoFiles[0])
		spec, err := loadPkgSpec(dir, p.PkgPath)
		if err != nil {
			return nil, err
		}
		pk.Spec = spec
		prog.AllSpecs = append(prog.AllSpecs, spec)
		for _, f := range p.Syntax {
			for _, d := range f.Decls {
				fd, ok := d.(*ast.FuncDecl)
				if !ok || fd.Body == nil {
					continue
				}
				obj, _ := p.TypesInfo.Defs[fd.Name].(*types.Func)
				if obj == nil {
					continue
				}
				key := fd.Name.Name
				if fd.Recv != nil && len(fd.Recv.List) > 0 {
					key = recvTypeName(fd.Recv.List[0].Type) + "." + key
				}
				fi := &FuncInfo{Pkg: pk, Decl: fd, Obj: obj, Key: key}
				ast.Inspect(fd.Body, func(n ast.Node) bool {
					switch n.(type) {
					case *ast.ForStmt, *ast.RangeStmt:
						fi.loops = append(fi.loops, n.(ast.Stmt))
					case *ast.FuncLit:
						return true
					}
					return true
				})
				pk.Funcs[key] = fi
				prog.byObj[obj] = fi
			}
		}
		for k, c := range spec.Contracts {
			if c.Ext {
				prog.Ext[k] = c
				prog.ExtOwner[k] = spec
				continue
			}
			fi := pk.Funcs[k]
			if fi == nil {
				// contract that no longer binds: reported by the checker as #gen
				continue
			}
			fi.Spec = c
		}
		prog.Pkgs[p.PkgPath] = pk
	}
	return prog, nil
}

func recvTypeName(e ast.Expr) string {
	switch x := e.(type) {
	case *ast.StarExpr:
		return recvTypeName(x.X)
	case *ast.IndexExpr:
		return recvTypeName(x.X)
	case *ast.IndexListExpr:
		return recvTypeName(x.X)
	case *ast.Ident:
		return x.Name
	case *ast.ParenExpr:
		return recvTypeName(x.X)
	}
	return "?"
}

func (p *Program) funcOf(obj *types.Func) *FuncInfo {
	if obj == nil {
		return nil
	}
	return p.byObj[obj.Origin()]
}

func (p *Program) pkgByShort(short string) *Package {
	for _, pk := range p.Pkgs {
		if pk.Short == short {
			return pk
		}
	}
	return nil
}

// ---- type substitution ----

func substType(t types.Type, m map[*types.TypeParam]types.Type) types.Type {
	if len(m) == 0 || t == nil {
		return t
	}
	switch u := t.(type) {
	case *types.TypeParam:
		if r, ok := m[u]; ok {
			return r
		}
		return u
	case *types.Pointer:
		e := substType(u.Elem(), m)
		if e == u.Elem() {
			return u
		}
		return types.NewPointer(e)
	case *types.Slice:
		e := substType(u.Elem(), m)
		if e == u.Elem() {
			return u
		}
		return types.NewSlice(e)
	case *types.Array:
		e := substType(u.Elem(), m)
		if e == u.Elem() {
			return u
		}
		return types.NewArray(e, u.Len())
	case *types.Map:
		k, e := substType(u.Key(), m), substType(u.Elem(), m)
		if k == u.Key() && e == u.Elem() {
			return u
		}
		return types.NewMap(k, e)
	case *types.Chan:
		e := substType(u.Elem(), m)
		if e == u.Elem() {
			return u
		}
		return types.NewChan(u.Dir(), e)
	case *types.Alias:
		return substType(types.Unalias(u), m)
	case *types.Named:
		ta := u.TypeArgs()
		if ta == nil || ta.Len() == 0 {
			return u
		}
		changed := false
		args := make([]types.Type, ta.Len())
		for i := 0; i < ta.Len(); i++ {
			args[i] = substType(ta.At(i), m)
			if args[i] != ta.At(i) {
				changed = true
			}
		}
		if !changed {
			return u
		}
		inst, err := types.Instantiate(nil, u.Origin(), args, false)
		if err != nil {
			panic(unsupported("instantiate " + u.String() + ": " + err.Error()))
		}
		return inst
	case *types.Signature:
		ps := substTuple(u.Params(), m)
		rs := substTuple(u.Results(), m)
		if ps == u.Params() && rs == u.Results() {
			return u
		}
		return types.NewSignatureType(nil, nil, nil, ps, rs, u.Variadic())
	case *types.Tuple:
		return substTuple(u, m)
	case *types.Struct:
		changed := false
		fs := make([]*types.Var, u.NumFields())
		tags := make([]string, u.NumFields())
		for i := 0; i < u.NumFields(); i++ {
			f := u.Field(i)
			ft := substType(f.Type(), m)
			if ft != f.Type() {
				changed = true
			}
			fs[i] = types.NewField(f.Pos(), f.Pkg(), f.Name(), ft, f.Embedded())
			tags[i] = u.Tag(i)
		}
		if !changed {
			return u
		}
		return types.NewStruct(fs, tags)
	}
	return t
}

func substTuple(t *types.Tuple, m map[*types.TypeParam]types.Type) *types.Tuple {
	if t == nil {
		return nil
	}
	changed := false
	vs := make([]*types.Var, t.Len())
	for i := 0; i < t.Len(); i++ {
		v := t.At(i)
		nt := substType(v.Type(), m)
		if nt != v.Type() {
			changed = true
		}
		vs[i] = types.NewVar(v.Pos(), v.Pkg(), v.Name(), nt)
	}
	if !changed {
		return t
	}
	return types.NewTuple(vs...)
}

// structOf returns the named struct type behind t (through one pointer), or nil.
func structOf(t types.Type) (*types.Named, *types.Struct, bool) {
	if t == nil {
		return nil, nil, false
	}
	t = types.Unalias(t)
	isPtr := false
	if p, ok := t.Underlying().(*types.Pointer); ok {
		t = types.Unalias(p.Elem())
		isPtr = true
	}
	if n, ok := t.(*types.Named); ok {
		if s, ok := n.Underlying().(*types.Struct); ok {
			return n, s, isPtr
		}
	}
	if s, ok := t.(*types.Struct); ok {
		return nil, s, isPtr
	}
	return nil, nil, isPtr
}

func shortPkgPath(p string) string {
	if i := strings.LastIndex(p, "/"); i >= 0 {
		return p[i+1:]
	}
	return p
}
