package main

// exec.go: forward symbolic execution of Go function bodies (typed AST), CPS style so that every
// branch, inlined call and potential panic can fork the path.

import (
	"fmt"
	"go/ast"
	"go/token"
	"go/types"
	"os"
	"sort"
	"strings"
)

func osEnviron() []string { return os.Environ() }

const maxInlineDepth = 6
const maxPaths = 4000

func (ex *Exec) typeOf(fr *Frame, e ast.Expr) types.Type {
	tv, ok := fr.info.Types[e]
	if !ok {
		if id, ok := e.(*ast.Ident); ok {
			if o := fr.info.ObjectOf(id); o != nil {
				return substType(o.Type(), fr.tsub)
			}
		}
		panic(unsupported("no type for expression " + exprStr(e)))
	}
	return substType(tv.Type, fr.tsub)
}

func exprStr(e ast.Expr) string {
	return types.ExprString(e)
}

func (ex *Exec) mkVal(t string, ty types.Type) Val {
	return Val{T: t, S: ex.w.sortOf(ty), Go: ty}
}

func (ex *Exec) zeroVal(ty types.Type) Val {
	s := ex.w.sortOf(ty)
	return Val{T: ex.w.zero(s), S: s, Go: ty}
}

func (ex *Exec) freshVal(st *State, base string, ty types.Type) Val {
	s := ex.w.sortOf(ty)
	v := Val{T: ex.w.freshConst(base, s), S: s, Go: ty}
	st.assume(ex.typeInv(st, v))
	return v
}

// ---------- statements ----------

func (ex *Exec) block(st *State, stmts []ast.Stmt, k func(*State)) {
	if len(stmts) == 0 {
		k(st)
		return
	}
	ex.stmt(st, stmts[0], func(st *State) { ex.block(st, stmts[1:], k) })
}

func (ex *Exec) stmt(st *State, s ast.Stmt, k func(*State)) {
	ex.nPaths++
	if ex.nPaths > 200000 {
		panic(unsupported("path explosion"))
	}
	ex.annotationsBefore(st, s)
	fr := st.frame
	switch s := s.(type) {
	case *ast.BlockStmt:
		ex.block(st, s.List, k)
	case *ast.EmptyStmt:
		k(st)
	case *ast.ExprStmt:
		ex.exprN(st, s.X, func(st *State, _ []Val) { k(st) })
	case *ast.IncDecStmt:
		ex.expr(st, s.X, func(st *State, v Val) {
			one := "1"
			op := "+"
			if s.Tok == token.DEC {
				op = "-"
			}
			nv := Val{T: fmt.Sprintf("(%s %s %s)", op, v.T, one), S: v.S, Go: v.Go}
			nv = ex.wrapInt(nv)
			ex.assign(st, s.X, nv, k)
		})
	case *ast.DeclStmt:
		gd := s.Decl.(*ast.GenDecl)
		if gd.Tok != token.VAR {
			k(st)
			return
		}
		ex.varSpecs(st, gd.Specs, k)
	case *ast.AssignStmt:
		ex.assignStmt(st, s, k)
	case *ast.ReturnStmt:
		ex.returnStmt(st, s)
	case *ast.IfStmt:
		cont := func(st *State) {
			ex.cond(st, s.Cond, func(st *State) { ex.block(st, s.Body.List, k) }, func(st *State) {
				if s.Else != nil {
					ex.stmt(st, s.Else, k)
				} else {
					k(st)
				}
			})
		}
		if s.Init != nil {
			ex.stmt(st, s.Init, cont)
		} else {
			cont(st)
		}
	case *ast.ForStmt:
		ex.forStmt(st, s, "", k)
	case *ast.RangeStmt:
		ex.rangeStmt(st, s, "", k)
	case *ast.LabeledStmt:
		switch inner := s.Stmt.(type) {
		case *ast.ForStmt:
			ex.forStmt(st, inner, s.Label.Name, k)
		case *ast.RangeStmt:
			ex.rangeStmt(st, inner, s.Label.Name, k)
		default:
			ex.stmt(st, s.Stmt, k)
		}
	case *ast.BranchStmt:
		lbl := ""
		if s.Label != nil {
			lbl = s.Label.Name
		}
		for i := len(fr.loops) - 1; i >= 0; i-- {
			lc := fr.loops[i]
			if lbl == "" || lc.label == lbl {
				switch s.Tok {
				case token.BREAK:
					lc.onBreak(st)
					return
				case token.CONTINUE:
					if lc.onContinue == nil {
						continue // a switch context: continue refers to the enclosing loop
					}
					lc.onContinue(st)
					return
				}
			}
		}
		panic(unsupported("branch statement " + s.Tok.String()))
	case *ast.SwitchStmt:
		ex.switchStmt(st, s, k)
	case *ast.DeferStmt:
		ex.deferStmt(st, s, k)
	case *ast.GoStmt:
		panic(unsupported("go statement (goroutines are outside the verified subset)"))
	case *ast.SelectStmt:
		ex.selectStmt(st, s, k)
	case *ast.SendStmt:
		ex.sendStmt(st, s, k)
	default:
		panic(unsupported(fmt.Sprintf("statement %T", s)))
	}
}

func (ex *Exec) varSpecs(st *State, specs []ast.Spec, k func(*State)) {
	if len(specs) == 0 {
		k(st)
		return
	}
	vs := specs[0].(*ast.ValueSpec)
	fr := st.frame
	rest := func(st *State) { ex.varSpecs(st, specs[1:], k) }
	if len(vs.Values) == 0 {
		for _, n := range vs.Names {
			obj := fr.info.Defs[n]
			if obj == nil {
				continue
			}
			vt := substType(obj.Type(), fr.tsub)
			if at, ok := types.Unalias(vt).Underlying().(*types.Array); ok {
				// a local array variable: a fresh zeroed array of its declared length (arrays are
				// modelled as slices over their own backing array; before this the zero Slice - nil,
				// length 0 - stood in for it, which made `buf[:]` empty and writes to it look like
				// writes to the nil array)
				n := fmt.Sprint(at.Len())
				v := ex.makeSlice(st, vt, at.Elem(), n, n)
				v.Go = vt
				ex.declare(st, obj, v)
				continue
			}
			ex.declare(st, obj, ex.zeroVal(vt))
		}
		rest(st)
		return
	}
	if len(vs.Values) == len(vs.Names) {
		ex.exprList(st, vs.Values, func(st *State, vals []Val) {
			for i, n := range vs.Names {
				if obj := st.frame.info.Defs[n]; obj != nil {
					v := vals[i]
					v.Go = substType(obj.Type(), st.frame.tsub)
					ex.declare(st, obj, v)
				}
			}
			rest(st)
		})
		return
	}
	ex.exprN(st, vs.Values[0], func(st *State, vals []Val) {
		for i, n := range vs.Names {
			if obj := st.frame.info.Defs[n]; obj != nil {
				ex.declare(st, obj, vals[i])
			}
		}
		rest(st)
	})
}

func (ex *Exec) declare(st *State, obj types.Object, v Val) {
	fr := st.frame
	fr.vars[obj] = v
	if obj.Name() != "_" {
		fr.names[obj.Name()] = obj
	}
}

func (ex *Exec) exprList(st *State, es []ast.Expr, k func(*State, []Val)) {
	var rec func(st *State, i int, acc []Val)
	rec = func(st *State, i int, acc []Val) {
		if i == len(es) {
			k(st, acc)
			return
		}
		ex.expr(st, es[i], func(st *State, v Val) {
			rec(st, i+1, append(acc[:len(acc):len(acc)], v))
		})
	}
	rec(st, 0, nil)
}

func (ex *Exec) assignStmt(st *State, s *ast.AssignStmt, k func(*State)) {
	fr := st.frame
	if s.Tok != token.ASSIGN && s.Tok != token.DEFINE {
		// op=
		op := strings.TrimSuffix(s.Tok.String(), "=")
		ex.expr(st, s.Lhs[0], func(st *State, l Val) {
			ex.expr(st, s.Rhs[0], func(st *State, r Val) {
				v := ex.binop(st, op, l, r, s.Pos(), ex.typeOf(st.frame, s.Lhs[0]))
				ex.assign(st, s.Lhs[0], v, k)
			})
		})
		return
	}
	store := func(st *State, vals []Val) {
		var rec func(st *State, i int)
		rec = func(st *State, i int) {
			if i == len(s.Lhs) {
				k(st)
				return
			}
			lhs := s.Lhs[i]
			if id, ok := lhs.(*ast.Ident); ok {
				if id.Name == "_" {
					rec(st, i+1)
					return
				}
				if s.Tok == token.DEFINE {
					if obj := st.frame.info.Defs[id]; obj != nil {
						v := vals[i]
						v.Go = substType(obj.Type(), st.frame.tsub)
						ex.declare(st, obj, v)
						ex.afterAssign(st, id)
						rec(st, i+1)
						return
					}
				}
				ex.assign(st, lhs, vals[i], func(st *State) {
					ex.afterAssign(st, id)
					rec(st, i+1)
				})
				return
			}
			if ix, ok := lhs.(*ast.IndexExpr); ok {
				if bid, ok := ast.Unparen(ix.X).(*ast.Ident); ok {
					ex.assign(st, lhs, vals[i], func(st *State) {
						ex.afterStore(st, bid)
						rec(st, i+1)
					})
					return
				}
			}
			ex.assign(st, lhs, vals[i], func(st *State) { rec(st, i+1) })
		}
		rec(st, 0)
	}
	_ = fr
	if len(s.Rhs) == len(s.Lhs) {
		ex.exprList(st, s.Rhs, store)
	} else {
		ex.exprN(st, s.Rhs[0], store)
	}
}

func (ex *Exec) returnStmt(st *State, s *ast.ReturnStmt) {
	fr := st.frame
	if len(s.Results) == 0 {
		var vals []Val
		for _, o := range fr.results {
			vals = append(vals, fr.vars[o])
		}
		ex.doReturn(st, vals)
		return
	}
	sig := fr.sig()
	if len(s.Results) == 1 && sig.Results().Len() > 1 {
		ex.exprN(st, s.Results[0], func(st *State, vals []Val) { ex.doReturn(st, vals) })
		return
	}
	ex.exprList(st, s.Results, func(st *State, vals []Val) {
		// adopt declared result types (e.g. returning *T as an interface)
		for i := range vals {
			if i < sig.Results().Len() {
				vals[i] = ex.convTo(vals[i], substType(sig.Results().At(i).Type(), st.frame.tsub))
			}
		}
		ex.doReturn(st, vals)
	})
}

// convTo converts a value to a destination type: interface destinations take references as they
// are and box every other value (structs by value, ints ...) with an injective function.
func (ex *Exec) convTo(v Val, to types.Type) Val {
	if to == nil {
		return v
	}
	if _, isIface := types.Unalias(to).Underlying().(*types.Interface); isIface {
		if _, isTP := types.Unalias(to).(*types.TypeParam); isTP {
			v.Go = to
			return v
		}
		if v.S.Kind == KRef {
			return Val{T: v.T, S: sRef, Go: to}
		}
		return Val{T: ex.box(v), S: sRef, Go: to}
	}
	ts := ex.w.sortOf(to)
	if v.T == "nil" && ts.Kind != KRef {
		return Val{T: ex.w.zero(ts), S: ts, Go: to}
	}
	if ts.Name == v.S.Name {
		v.Go = to
		v.S = ts
	}
	return v
}

func (ex *Exec) box(v Val) string {
	fn := sym("box_" + strings.Trim(v.S.Name, "|"))
	if !ex.w.declared[fn] {
		ex.w.declFun(fn, []*Sort{v.S}, sRef)
		un := sym("unbox_" + strings.Trim(v.S.Name, "|"))
		ex.w.declFun(un, []*Sort{sRef}, v.S)
		ex.w.axioms = append(ex.w.axioms, fmt.Sprintf("(forall ((x %s)) (! (and (not (= (%s x) nil)) (= (%s (%s x)) x)) :pattern ((%s x))))", v.S.Name, fn, un, fn, fn))
	}
	return sApp(fn, v.T)
}

func convGo(from, to types.Type) types.Type {
	if to == nil {
		return from
	}
	return to
}

func (fr *Frame) sig() *types.Signature {
	if fr.fi != nil && fr.litSig == nil {
		return fr.fi.Obj.Type().(*types.Signature)
	}
	return fr.litSig
}

func (ex *Exec) doReturn(st *State, vals []Val) {
	fr := st.frame
	// named results are assigned so that deferred functions see them
	for i, o := range fr.results {
		if i < len(vals) {
			fr.vars[o] = vals[i]
		}
	}
	ex.runDefers(st, func(st *State) {
		fr := st.frame
		if len(fr.results) > 0 {
			vals = vals[:0:0]
			for _, o := range fr.results {
				vals = append(vals, fr.vars[o])
			}
		}
		fr.onReturn(st, vals)
	})
}

func (ex *Exec) runDefers(st *State, k func(*State)) {
	fr := st.frame
	if len(fr.defers) == 0 {
		k(st)
		return
	}
	d := fr.defers[len(fr.defers)-1]
	fr.defers = fr.defers[:len(fr.defers)-1]
	d(st, func(st *State) { ex.runDefers(st, k) })
}

// doPanic: control leaves the current frame by panicking.
func (ex *Exec) doPanic(st *State) {
	ex.runDefers(st, func(st *State) {
		st.frame.onPanic(st)
	})
}

func (ex *Exec) deferStmt(st *State, s *ast.DeferStmt, k func(*State)) {
	// evaluate function value and arguments now, run the call at exit
	call := s.Call
	ex.evalCallOperands(st, call, func(st *State, ct *callTarget) {
		st.frame.defers = append(st.frame.defers, func(st *State, k2 func(*State)) {
			ex.invoke(st, ct, func(st *State, _ []Val) { k2(st) })
		})
		k(st)
	})
}

// cond evaluates a boolean condition and continues on both branches.
func (ex *Exec) cond(st *State, e ast.Expr, kt, kf func(*State)) {
	e = ast.Unparen(e)
	switch x := e.(type) {
	case *ast.BinaryExpr:
		if x.Op == token.LAND && !isSimple(x.Y) {
			ex.cond(st, x.X, func(st *State) { ex.cond(st, x.Y, kt, kf) }, kf)
			return
		}
		if x.Op == token.LOR && !isSimple(x.Y) {
			ex.cond(st, x.X, kt, func(st *State) { ex.cond(st, x.Y, kt, kf) })
			return
		}
	case *ast.UnaryExpr:
		if x.Op == token.NOT {
			ex.cond(st, x.X, kf, kt)
			return
		}
	}
	ex.expr(st, e, func(st *State, v Val) {
		ex.branch(st, v.T, kt, kf)
	})
}

func (ex *Exec) branch(st *State, c string, kt, kf func(*State)) {
	if c == "true" {
		kt(st)
		return
	}
	if c == "false" {
		kf(st)
		return
	}
	st2 := st.fork()
	st.assume(c)
	kt(st)
	st2.assume(sNot(c))
	kf(st2)
}

// isSimple: evaluation cannot have effects, cannot fork and cannot panic except for nil
// dereferences / index errors which are then guarded by the left operand.
func isSimple(e ast.Expr) bool {
	simple := true
	ast.Inspect(e, func(n ast.Node) bool {
		switch c := n.(type) {
		case *ast.CallExpr:
			if id, ok := c.Fun.(*ast.Ident); ok && (id.Name == "len" || id.Name == "cap") {
				return true
			}
			simple = false
		case *ast.FuncLit, *ast.TypeAssertExpr:
			simple = false
		case *ast.UnaryExpr:
			if c.Op == token.ARROW {
				simple = false
			}
		}
		return simple
	})
	return simple
}

func (ex *Exec) switchStmt(st *State, s *ast.SwitchStmt, k func(*State)) {
	body := func(st *State, tag *Val) {
		st.frame.loops = append(st.frame.loops, &loopCtx{onBreak: func(st *State) {
			st.frame.loops = st.frame.loops[:len(st.frame.loops)-1]
			k(st)
		}})
		done := func(st *State) {
			st.frame.loops = st.frame.loops[:len(st.frame.loops)-1]
			k(st)
		}
		var clauses []*ast.CaseClause
		var def *ast.CaseClause
		for _, c := range s.Body.List {
			cc := c.(*ast.CaseClause)
			if cc.List == nil {
				def = cc
			} else {
				clauses = append(clauses, cc)
			}
		}
		var rec func(st *State, i int)
		rec = func(st *State, i int) {
			if i == len(clauses) {
				if def != nil {
					ex.block(st, def.Body, done)
				} else {
					done(st)
				}
				return
			}
			cc := clauses[i]
			// condition: disjunction of case expressions
			var recE func(st *State, j int)
			recE = func(st *State, j int) {
				if j == len(cc.List) {
					rec(st, i+1)
					return
				}
				if tag == nil {
					ex.cond(st, cc.List[j], func(st *State) { ex.block(st, cc.Body, done) }, func(st *State) { recE(st, j+1) })
				} else {
					ex.expr(st, cc.List[j], func(st *State, v Val) {
						ex.branch(st, sEq(tag.T, v.T), func(st *State) { ex.block(st, cc.Body, done) }, func(st *State) { recE(st, j+1) })
					})
				}
			}
			recE(st, 0)
		}
		rec(st, 0)
	}
	start := func(st *State) {
		if s.Tag != nil {
			ex.expr(st, s.Tag, func(st *State, v Val) { body(st, &v) })
		} else {
			body(st, nil)
		}
	}
	if s.Init != nil {
		ex.stmt(st, s.Init, start)
	} else {
		start(st)
	}
}

// ---------- assignment ----------

func (ex *Exec) assign(st *State, lhs ast.Expr, v Val, k func(*State)) {
	lhs = ast.Unparen(lhs)
	fr := st.frame
	switch l := lhs.(type) {
	case *ast.Ident:
		if l.Name == "_" {
			k(st)
			return
		}
		obj := fr.info.ObjectOf(l)
		old, owner, ok := fr.lookupVar(obj)
		if !ok {
			panic(unsupported("assignment to unknown variable " + l.Name))
		}
		v.Go = old.Go
		if owner.boxed[obj] {
			ex.storeStruct(st, old.T, v)
			k(st)
			return
		}
		owner.vars[obj] = v
		k(st)
	case *ast.SelectorExpr:
		sel := fr.info.Selections[l]
		if sel == nil {
			panic(unsupported("assignment to qualified identifier " + exprStr(l)))
		}
		baseT := ex.typeOf(fr, l.X)
		_, stT, isPtr := structOf(baseT)
		if stT == nil {
			panic(unsupported("field assignment on " + baseT.String()))
		}
		if len(sel.Index()) != 1 {
			panic(unsupported("assignment through embedded field"))
		}
		if isPtr {
			ex.expr(st, l.X, func(st *State, base Val) {
				ex.nilCheck(st, base, l.Pos(), func(st *State) {
					ex.storeField(st, base, sel.Obj().(*types.Var), v)
					k(st)
				})
			})
			return
		}
		// struct by value: rebuild and assign to the base place
		ex.expr(st, l.X, func(st *State, base Val) {
			nb := ex.withField(base, sel.Obj().Name(), v)
			ex.assign(st, l.X, nb, k)
		})
	case *ast.IndexExpr:
		bt := ex.typeOf(fr, l.X)
		switch u := types.Unalias(bt).Underlying().(type) {
		case *types.Slice:
			ex.expr(st, l.X, func(st *State, base Val) {
				ex.expr(st, l.Index, func(st *State, idx Val) {
					ex.boundsCheck(st, idx.T, fmt.Sprintf("(s_len %s)", base.T), l.Pos(), func(st *State) {
						ex.storeElem(st, base, idx.T, v)
						k(st)
					})
				})
			})
		case *types.Array:
			ex.arrayPlace(st, l.X, func(st *State, base Val) {
				ex.expr(st, l.Index, func(st *State, idx Val) {
					ex.boundsCheck(st, idx.T, fmt.Sprint(u.Len()), l.Pos(), func(st *State) {
						ex.storeElem(st, base, idx.T, v)
						k(st)
					})
				})
			})
		case *types.Pointer:
			// pointer to array
			if arr, ok := types.Unalias(u.Elem()).Underlying().(*types.Array); ok {
				ex.expr(st, l.X, func(st *State, base Val) {
					ex.expr(st, l.Index, func(st *State, idx Val) {
						sl := ex.ptrArraySlice(base, arr)
						ex.boundsCheck(st, idx.T, fmt.Sprint(arr.Len()), l.Pos(), func(st *State) {
							ex.storeElem(st, sl, idx.T, v)
							k(st)
						})
					})
				})
				return
			}
			panic(unsupported("index assignment on " + bt.String()))
		case *types.Map:
			ex.expr(st, l.X, func(st *State, m Val) {
				ex.expr(st, l.Index, func(st *State, key Val) {
					ex.mapStore(st, m, key, v, l.Pos(), k)
				})
			})
		default:
			panic(unsupported("index assignment on " + bt.String()))
		}
	case *ast.StarExpr:
		ex.expr(st, l.X, func(st *State, p Val) {
			ex.nilCheck(st, p, l.Pos(), func(st *State) {
				ex.storeStruct(st, p.T, v)
				k(st)
			})
		})
	default:
		panic(unsupported(fmt.Sprintf("assignment to %T", lhs)))
	}
}

func (ex *Exec) withField(base Val, name string, v Val) Val {
	var vs []string
	for _, f := range base.S.Fields {
		if f.Name == name {
			vs = append(vs, v.T)
		} else {
			vs = append(vs, sApp(f.Sel, base.T))
		}
	}
	return Val{T: ex.w.mkStruct(base.S, vs), S: base.S, Go: base.Go}
}

func (ex *Exec) fieldKey(n *types.Named, st *types.Struct, f string) string {
	if n != nil {
		return "f:" + ex.w.typeString(n) + "." + f
	}
	return "f:" + ex.w.typeString(st) + "." + f
}

func (ex *Exec) fieldArraySort(fs *Sort) *Sort { return ex.w.mapGSort(sRef, fs) }

// fieldAddr: the address of a struct-typed field of a heap object is a reference of its own, an
// injective function of the enclosing object.
func (ex *Exec) fieldAddr(baseT string, baseGo types.Type, fname string) string {
	fn := sym("fieldaddr_" + ex.w.typeString(baseGo) + "." + fname)
	if !ex.w.declared[fn] {
		ex.w.declFun(fn, []*Sort{sRef}, sRef)
		inv := sym("fieldaddr_inv_" + ex.w.typeString(baseGo) + "." + fname)
		ex.w.declFun(inv, []*Sort{sRef}, sRef)
		ex.w.axioms = append(ex.w.axioms, fmt.Sprintf("(forall ((r Ref)) (! (and (= (%s (%s r)) r) (not (= (%s r) nil))) :pattern ((%s r))))", inv, fn, fn, fn))
	}
	return sApp(fn, baseT)
}

// nestedStruct reports whether ft is a struct type of this repository stored by value: such a field
// is modelled as a sub-object (its fields live in the heap arrays of its own type, at fieldAddr), so
// that methods called on &x.f and direct reads x.f.g see the same storage.
func (ex *Exec) nestedStruct(ft types.Type) bool {
	n, stT, isPtr := structOf(ft)
	if stT == nil || isPtr || n == nil || n.Obj().Pkg() == nil {
		return false
	}
	for _, pk := range ex.prog.Pkgs {
		if pk.P.Types == n.Obj().Pkg() {
			return true
		}
	}
	return false
}

func (ex *Exec) loadField(st *State, base Val, f *types.Var) Val {
	n, stT, _ := structOf(base.Go)
	ft := ex.fieldType(base.Go, f)
	if ex.nestedStruct(ft) {
		return ex.loadStruct(st, ex.fieldAddr(base.T, base.Go, f.Name()), ft)
	}
	fs := ex.w.sortOf(ft)
	if arr, ok := types.Unalias(ft).Underlying().(*types.Array); ok {
		return ex.arrayFieldSlice(base.T, n, stT, f.Name(), arr, ft)
	}
	key := ex.fieldKey(n, stT, f.Name())
	a := ex.heapGet(st, key, ex.fieldArraySort(fs), ft)
	v := Val{T: sSel(a, base.T), S: fs, Go: ft}
	return v
}

// arrayFieldSlice: an array-typed field of a heap object is a fixed backing array identified by
// an injective function of the object.
func (ex *Exec) arrayFieldSlice(ref string, n *types.Named, stT *types.Struct, fname string, arr *types.Array, ft types.Type) Val {
	fn := sym("arrof_" + strings.TrimPrefix(ex.fieldKey(n, stT, fname), "f:"))
	if !ex.w.declared[fn] {
		ex.w.declFun(fn, []*Sort{sRef}, sArrId)
		inv := sym("arrof_inv_" + strings.TrimPrefix(ex.fieldKey(n, stT, fname), "f:"))
		ex.w.declFun(inv, []*Sort{sArrId}, sRef)
		if !ex.w.declared["g_arrkind"] {
			ex.w.declFun("g_arrkind", []*Sort{sArrId}, sInt)
		}
		ex.w.arrOfFns = append(ex.w.arrOfFns, fn)
		// injective, never nilarr; distinct array fields never share a backing array (distinct kinds)
		ex.w.axioms = append(ex.w.axioms,
			fmt.Sprintf("(forall ((r Ref)) (! (and (= (%s (%s r)) r) (not (= (%s r) nilarr)) (= (g_arrkind (%s r)) %d)) :pattern ((%s r))))", inv, fn, fn, fn, len(ex.w.arrOfFns), fn))
	}
	s := &Sort{Kind: KSlice, Name: "Slice", Elem: ex.w.sortOf(arr.Elem()), Go: ft}
	return Val{T: fmt.Sprintf("(mkslice (%s %s) 0 %d %d)", fn, ref, arr.Len(), arr.Len()), S: s, Go: ft}
}

func (ex *Exec) ptrArraySlice(p Val, arr *types.Array) Val {
	// a pointer to an array field is represented by the slice over the whole array
	return Val{T: p.T, S: &Sort{Kind: KSlice, Name: "Slice", Elem: ex.w.sortOf(arr.Elem())}, Go: p.Go}
}

func (ex *Exec) fieldType(base types.Type, f *types.Var) types.Type {
	// f.Type() is expressed in the type parameters of the generic declaration; substitute the
	// instantiation's type arguments.
	n, _, _ := structOf(base)
	if n == nil || n.TypeArgs() == nil || n.TypeArgs().Len() == 0 {
		return f.Type()
	}
	tp := n.Origin().TypeParams()
	m := map[*types.TypeParam]types.Type{}
	for i := 0; i < tp.Len(); i++ {
		m[tp.At(i)] = n.TypeArgs().At(i)
	}
	// look up the field of the origin to get a type over the origin's parameters
	os := n.Origin().Underlying().(*types.Struct)
	for i := 0; i < os.NumFields(); i++ {
		if os.Field(i).Name() == f.Name() {
			return substType(os.Field(i).Type(), m)
		}
	}
	return f.Type()
}

func (ex *Exec) storeField(st *State, base Val, f *types.Var, v Val) {
	n, stT, _ := structOf(base.Go)
	ft := ex.fieldType(base.Go, f)
	if ex.nestedStruct(ft) {
		v.Go = ft
		ex.storeStruct(st, ex.fieldAddr(base.T, base.Go, f.Name()), v)
		return
	}
	fs := ex.w.sortOf(ft)
	if arr, ok := types.Unalias(ft).Underlying().(*types.Array); ok {
		// whole-array store into the object's own backing array
		dst := ex.arrayFieldSlice(base.T, n, stT, f.Name(), arr, ft)
		es := dst.S.Elem
		mk := ex.memKey(es)
		ms := ex.w.memSort(es)
		m := ex.heapGet(st, mk, ms, arr.Elem())
		darr, _ := elemAddr(dst.T, "0")
		if v.T == ex.w.zero(v.S) {
			ex.heapSet(st, mk, ms, sStore(m, darr, ex.zeroRow(es)))
			return
		}
		row := ex.w.freshConst("arrcopy", ex.w.seqSort(es))
		sarr, s0 := elemAddr(v.T, "0")
		st.assume(fmt.Sprintf("(forall ((k Int)) (! (=> (and (<= 0 k) (< k %d)) (= (select %s k) (select (select %s %s) (+ %s k)))) :pattern ((select %s k))))", arr.Len(), row, m, sarr, s0, row))
		ex.heapSet(st, mk, ms, sStore(m, darr, row))
		return
	}
	key := ex.fieldKey(n, stT, f.Name())
	as := ex.fieldArraySort(fs)
	a := ex.heapGet(st, key, as, ft)
	ex.heapSet(st, key, as, sStore(a, base.T, v.T))
}

func (ex *Exec) storeStruct(st *State, ref string, v Val) {
	n, stT, _ := structOf(v.Go)
	if stT == nil {
		panic(unsupported("store through pointer to non-struct"))
	}
	// a constructor application gives the field values directly
	var direct []string
	if parts := sexprArgs(v.T); len(parts) == stT.NumFields()+1 && parts[0] == v.S.ctor() {
		direct = parts[1:]
	}
	for i := 0; i < stT.NumFields(); i++ {
		f := stT.Field(i)
		fv := Val{T: sApp(v.S.Fields[i].Sel, v.T), S: v.S.Fields[i].S, Go: v.S.Fields[i].Go}
		if direct != nil {
			fv.T = direct[i]
		}
		ex.storeField(st, Val{T: ref, S: sRef, Go: types.NewPointer(namedOr(n, stT))}, f, fv)
	}
}

func namedOr(n *types.Named, s *types.Struct) types.Type {
	if n != nil {
		return n
	}
	return s
}

func (ex *Exec) loadStruct(st *State, ref string, ty types.Type) Val {
	n, stT, _ := structOf(ty)
	s := ex.w.sortOf(namedOr(n, stT))
	var vs []string
	for i := 0; i < stT.NumFields(); i++ {
		fv := ex.loadField(st, Val{T: ref, S: sRef, Go: types.NewPointer(namedOr(n, stT))}, stT.Field(i))
		vs = append(vs, fv.T)
	}
	return Val{T: ex.w.mkStruct(s, vs), S: s, Go: namedOr(n, stT)}
}

// elemAddr returns the backing array and the raw index of element idx of a slice; a slice that
// is syntactically (mkslice A 0 ...) (array-typed fields) indexes its array directly, which keeps
// quantifier patterns free of arithmetic.
func elemAddr(slT, idx string) (string, string) {
	if strings.HasPrefix(slT, "(mkslice ") {
		if parts := sexprArgs(slT); len(parts) == 5 {
			if parts[2] == "0" {
				return parts[1], idx
			}
			return parts[1], fmt.Sprintf("(+ %s %s)", parts[2], idx)
		}
	}
	return fmt.Sprintf("(s_arr %s)", slT), fmt.Sprintf("(+ (s_off %s) %s)", slT, idx)
}

func (ex *Exec) loadElem(st *State, sl Val, idx string) Val {
	ex.noteIx(idx)
	et := elemGoType(sl.Go)
	m := ex.heapGet(st, ex.memKey(sl.S.Elem), ex.w.memSort(sl.S.Elem), et)
	arr, raw := elemAddr(sl.T, idx)
	v := Val{T: sSel(sSel(m, arr), raw), S: sl.S.Elem, Go: et}
	return v
}

func elemGoType(t types.Type) types.Type {
	if t == nil {
		return nil
	}
	switch u := types.Unalias(t).Underlying().(type) {
	case *types.Slice:
		return u.Elem()
	case *types.Array:
		return u.Elem()
	case *types.Pointer:
		if a, ok := types.Unalias(u.Elem()).Underlying().(*types.Array); ok {
			return a.Elem()
		}
	}
	return nil
}

func (ex *Exec) storeElem(st *State, sl Val, idx string, v Val) {
	ex.noteIx(idx)
	key := ex.memKey(sl.S.Elem)
	ms := ex.w.memSort(sl.S.Elem)
	m := ex.heapGet(st, key, ms)
	arr, raw := elemAddr(sl.T, idx)
	ex.heapSet(st, key, ms, sStore(m, arr, sStore(sSel(m, arr), raw, v.T)))
}

func (ex *Exec) nilCheck(st *State, p Val, pos token.Pos, k func(*State)) {
	ex.safety(st, "safe.nil", sNot(sEq(p.T, "nil")), "nil dereference", pos, k)
}

func (ex *Exec) boundsCheck(st *State, idx, n string, pos token.Pos, k func(*State)) {
	ex.safety(st, "safe.bounds", fmt.Sprintf("(and (<= 0 %s) (< %s %s))", idx, idx, n), "index out of range", pos, k)
}

// safety: the operation panics at run time when cond is false.  The panic exit is checked against
// the function's `panics when` clause; execution continues under cond.
func (ex *Exec) safety(st *State, kind, cond, desc string, pos token.Pos, k func(*State)) {
	if cond == "true" {
		k(st)
		return
	}
	ps := st.fork()
	ps.assume(sNot(cond))
	ps.frame.panicDesc = kind + ": " + desc + " at " + ex.posString(pos)
	ex.doPanic(ps)
	st.assume(cond)
	k(st)
}

// ---------- loops ----------

func (ex *Exec) loopOrdinal(fr *Frame, s ast.Stmt) int {
	if fr.fi != nil {
		for i, l := range fr.fi.loops {
			if l == s {
				return i
			}
		}
	}
	return -1
}

// loopExtraKeys: heap arrays a loop body turned out to write that the syntactic write set missed.
var loopExtraKeys = map[ast.Stmt]map[string]*Sort{}

type restartVerify struct{}

type loopParts struct {
	stmt     ast.Stmt
	label    string
	cond     ast.Expr // may be nil
	post     ast.Stmt
	body     *ast.BlockStmt
	preBody  func(st *State, k func(*State)) // range: bind key/value
	condFn   func(st *State, kt, kf func(*State))
	autoInvs func(st *State) []string
	written  []ast.Node
	extraHavoc []types.Object
	postFn     func(st *State, k func(*State))
	rangeIdx   types.Object
	chanRecvLoop bool
}

func (ex *Exec) forStmt(st *State, s *ast.ForStmt, label string, k func(*State)) {
	start := func(st *State) {
		lp := &loopParts{stmt: s, label: label, cond: s.Cond, post: s.Post, body: s.Body}
		lp.written = []ast.Node{s.Body}
		if s.Post != nil {
			lp.written = append(lp.written, s.Post)
		}
		if s.Cond != nil {
			lp.written = append(lp.written, s.Cond)
		}
		ex.loop(st, lp, k)
	}
	if s.Init != nil {
		ex.stmt(st, s.Init, start)
	} else {
		start(st)
	}
}

func (ex *Exec) rangeStmt(st *State, s *ast.RangeStmt, label string, k func(*State)) {
	fr := st.frame
	xt := ex.typeOf(fr, s.X)
	switch u := types.Unalias(xt).Underlying().(type) {
	case *types.Slice, *types.Array:
		_ = u
		eval := ex.expr
		if _, isArr := u.(*types.Array); isArr {
			eval = ex.arrayPlace
		}
		eval(st, s.X, func(st *State, sl Val) {
			fr := st.frame
			// hidden index variable
			idxObj := types.NewVar(s.Pos(), nil, "idx"+fmt.Sprint(ex.loopOrdinal(fr, s)), types.Typ[types.Int])
			ex.declare(st, idxObj, Val{T: "0", S: sInt, Go: types.Typ[types.Int]})
			n := fmt.Sprintf("(s_len %s)", sl.T)
			nT := ex.w.define("rangelen", sInt, n)
			var keyObj, valObj types.Object
			if id, ok := s.Key.(*ast.Ident); ok && id.Name != "_" {
				if s.Tok == token.DEFINE {
					keyObj = fr.info.Defs[id]
				} else {
					keyObj = fr.info.Uses[id]
				}
			}
			if s.Value != nil {
				if id, ok := s.Value.(*ast.Ident); ok && id.Name != "_" {
					if s.Tok == token.DEFINE {
						valObj = fr.info.Defs[id]
					} else {
						valObj = fr.info.Uses[id]
					}
				}
			}
			if s.Tok == token.DEFINE {
				if keyObj != nil {
					ex.declare(st, keyObj, Val{T: "0", S: sInt, Go: types.Typ[types.Int]})
				}
				if valObj != nil {
					ex.declare(st, valObj, ex.zeroVal(substType(valObj.Type(), fr.tsub)))
				}
			}
			lp := &loopParts{stmt: s, label: label, body: s.Body}
			lp.written = []ast.Node{s.Body}
			lp.extraHavoc = []types.Object{idxObj, keyObj, valObj}
			lp.condFn = func(st *State, kt, kf func(*State)) {
				i := st.frame.vars[idxObj]
				ex.branch(st, fmt.Sprintf("(< %s %s)", i.T, nT), kt, kf)
			}
			lp.preBody = func(st *State, k func(*State)) {
				i := st.frame.vars[idxObj]
				if keyObj != nil {
					_, owner, _ := st.frame.lookupVar(keyObj)
					owner.vars[keyObj] = i
				}
				if valObj != nil {
					_, owner, _ := st.frame.lookupVar(valObj)
					ev := ex.loadElem(st, sl, i.T)
					owner.vars[valObj] = ev
				}
				k(st)
			}
			lp.postFn = func(st *State, k func(*State)) {
				i := st.frame.vars[idxObj]
				st.frame.vars[idxObj] = Val{T: fmt.Sprintf("(+ %s 1)", i.T), S: sInt, Go: i.Go}
				k(st)
			}
			lp.autoInvs = func(st *State) []string {
				i := st.frame.vars[idxObj]
				return []string{fmt.Sprintf("(and (<= 0 %s) (<= %s %s))", i.T, i.T, nT)}
			}
			lp.rangeIdx = idxObj
			ex.loop(st, lp, k)
		})
	case *types.Map:
		ex.rangeMap(st, s, label, k)
	case *types.Chan:
		ex.rangeChan(st, s, label, k)
	default:
		panic(unsupported("range over " + xt.String()))
	}
}

// loop cuts the loop at its invariant.
// preBox: struct locals whose address is taken inside the loop (explicitly, or by a call of a
// pointer-receiver method on the variable) are boxed BEFORE the loop is cut. Boxing used to happen
// lazily at the first address-of, i.e. inside the body after the loop-head havoc, from a frame
// variable that the havoc does not touch (the writes go to the box's heap fields): every iteration
// then started from the variable's value before the loop, and invariants about it were evaluated
// on that stale value (unsound; found when a seeded change in xrand.rSample was not reported).
func (ex *Exec) preBox(st *State, lp *loopParts) {
	if st.frame.info == nil {
		return
	}
	ex.preBoxNodes(st, st.frame.info, lp.written)
}

// preBoxNodes: the same for any piece of code that is executed an arbitrary number of times from a
// havocked state (loop bodies, callbacks of `repeats` contracts).
func (ex *Exec) preBoxNodes(st *State, info *types.Info, nodes []ast.Node) {
	fr := st.frame
	var ids []*ast.Ident
	for _, n := range nodes {
		if n == nil {
			continue
		}
		ast.Inspect(n, func(n ast.Node) bool {
			switch x := n.(type) {
			case *ast.UnaryExpr:
				if x.Op == token.AND {
					if id, ok := ast.Unparen(x.X).(*ast.Ident); ok {
						ids = append(ids, id)
					}
				}
			case *ast.CallExpr:
				if sel, ok := ast.Unparen(x.Fun).(*ast.SelectorExpr); ok {
					if id, ok := ast.Unparen(sel.X).(*ast.Ident); ok {
						if s := info.Selections[sel]; s != nil && s.Kind() == types.MethodVal {
							if f, ok := s.Obj().(*types.Func); ok {
								if sig, ok := f.Type().(*types.Signature); ok && sig.Recv() != nil {
									if _, isPtr := types.Unalias(sig.Recv().Type()).(*types.Pointer); isPtr {
										if _, argPtr := types.Unalias(s.Recv()).Underlying().(*types.Pointer); !argPtr {
											ids = append(ids, id)
										}
									}
								}
							}
						}
					}
				}
			}
			return true
		})
	}
	for _, id := range ids {
		obj := info.ObjectOf(id)
		if obj == nil {
			continue
		}
		v, owner, ok := fr.lookupVar(obj)
		if !ok || owner.boxed[obj] || v.S == nil || v.S.Kind != KStruct {
			continue
		}
		r := ex.newRef(st, "box_"+id.Name)
		ex.allocSub(st, r, v.Go)
		ex.storeStruct(st, r, v)
		owner.vars[obj] = Val{T: r, S: sRef, Go: v.Go}
		owner.boxed[obj] = true
	}
}

func (ex *Exec) loop(st *State, lp *loopParts, k func(*State)) {
	ex.preBox(st, lp)
	fr := st.frame
	ord := ex.loopOrdinal(fr, lp.stmt)
	var spec *LoopSpec
	if fr.fi != nil && fr.fi == ex.top && fr.fi.Spec != nil {
		spec = fr.fi.Spec.Loops[ord] // also loops inside function literals of the function itself
	} else if fr.fi != nil && fr.closure == nil && ex.top.Spec != nil && ex.top.Spec.InLoops != nil {
		spec = ex.top.Spec.InLoops[fmt.Sprintf("%s.%d", fr.fi.Decl.Name.Name, ord)]
	}
	if spec == nil {
		spec = &LoopSpec{}
		if fr.fi != nil && fr.fi.Spec != nil && len(fr.fi.Spec.Loops) > 0 {
			// some loops annotated, this one not: fine, only automatic invariants
		}
	}
	fname := "?"
	if fr.fi != nil {
		fname = fr.fi.Key
	}
	lname := fmt.Sprintf("loop%d", ord)
	if fr.fi != ex.top {
		lname = fname + "." + lname
	}
	var invIx [][]string
	evalInvs := func(st *State, asGoal bool) ([]string, []*Clause) {
		var ts []string
		var cs []*Clause
		invIx = nil
		if lp.autoInvs != nil {
			for _, a := range lp.autoInvs(st) {
				ts = append(ts, a)
				cs = append(cs, nil)
				invIx = append(invIx, nil)
			}
		}
		env := ex.specEnvFor(st, fr.fi)
		for _, inv := range spec.Invs {
			if !ex.propActive(inv.Props) {
				continue
			}
			if asGoal {
				ex.goalIx = nil
				ts = append(ts, env.goal(inv.E))
				invIx = append(invIx, ex.goalIx)
				ex.goalIx = nil
			} else {
				ts = append(ts, env.boolTerm(inv.E))
			}
			cs = append(cs, inv)
		}
		return ts, cs
	}
	// 1. invariant holds on entry
	ts, cs := evalInvs(st, true)
	for i, t := range ts {
		desc := "automatic range invariant"
		var props []string
		if cs[i] != nil {
			desc = cs[i].Src
			props = cs[i].Props
		}
		ex.goalIx = invIx[i]
		ex.oblige(st, lname+".entry", props, t, desc, lp.stmt.Pos())
	}
	// 2. havoc everything the loop may write
	ws := ex.writeSetOf(st.frame, lp.written)
	for k, s := range loopExtraKeys[lp.stmt] {
		ws.keys[k] = s // ghost state written by anchored ghost code inside the loop (found on an earlier pass)
	}
	pre := st.snapshot()
	for obj := range ws.vars {
		if v, owner, ok := st.frame.lookupVar(obj); ok {
			if owner.boxed[obj] {
				continue
			}
			nv := Val{T: ex.w.freshConst("loop_"+obj.Name(), v.S), S: v.S, Go: v.Go}
			owner.vars[obj] = nv
		}
	}
	for _, obj := range lp.extraHavoc {
		if obj == nil {
			continue
		}
		if v, owner, ok := st.frame.lookupVar(obj); ok {
			owner.vars[obj] = Val{T: ex.w.freshConst("loop_"+obj.Name(), v.S), S: v.S, Go: v.Go}
		}
	}
	var loopTargets []modTarget
	if len(spec.Modifies) > 0 {
		loopTargets = ex.specEnvFor(st, fr.fi).evalModifies(&Contract{Modifies: spec.Modifies})
		if loopTargets == nil {
			loopTargets = []modTarget{}
		}
	}
	ex.havocHeap(st, pre, ws, loopTargets)
	// ghost locals updated by the loop's ghost code are havocked like program variables
	for _, g := range spec.Ghosts {
		if id, ok := g.LHS.(*SIdent); ok {
			if cur, has := st.frame.ghost[id.Name]; has {
				st.frame.ghost[id.Name] = Val{T: ex.w.freshConst("loop_ghost_"+id.Name, cur.S), S: cur.S, Go: cur.Go}
			}
		}
	}
	// ghost locals assigned by anchored ghost code may change inside the loop as well
	if fr.fi == ex.top && ex.top.Spec != nil {
		for _, an := range ex.top.Spec.Anchors {
			if an.Kind != "ghost" || an.Ghost == nil {
				continue
			}
			if id, ok := an.Ghost.LHS.(*SIdent); ok {
				// only anchors whose site lies inside this loop can run during its iterations
				if pos, found := ex.anchorSite(an); found && lp.stmt != nil && (pos < lp.stmt.Pos() || pos >= lp.stmt.End()) {
					continue
				}
				if cur, has := st.frame.ghost[id.Name]; has && !strings.HasPrefix(cur.T, "g_loop_ghost_") {
					st.frame.ghost[id.Name] = Val{T: ex.w.freshConst("loop_ghost_"+id.Name, cur.S), S: cur.S, Go: cur.Go}
				}
			}
		}
	}
	// the typing invariants of havocked variables
	for obj := range ws.vars {
		if v, _, ok := st.frame.lookupVar(obj); ok {
			st.assume(ex.typeInv(st, v))
		}
	}
	for _, obj := range lp.extraHavoc {
		if obj != nil {
			if v, _, ok := st.frame.lookupVar(obj); ok {
				st.assume(ex.typeInv(st, v))
			}
		}
	}
	ts, _ = evalInvs(st, false)
	for _, t := range ts {
		st.assume(t)
	}
	{
		snaps := map[int]*State{}
		for k, v := range st.frame.iterSnap {
			snaps[k] = v
		}
		st.frame.iterSnap = snaps
		snaps[ord] = st.fork()
	}
	iterHead := st.frame.iterSnap[ord]
	checkInv := func(st *State) {
		// end of an iteration: ghost updates, then the invariant must hold again
		env := ex.specEnvFor(st, fr.fi)
		for _, g := range spec.Ghosts {
			env.ghostUpdate(g)
		}
		// every heap array the body changed must have been havocked at the loop head; ghost arrays
		// written by anchored ghost code are discovered here and the function is re-verified
		if !ws.all {
			missed := false
			for _, key := range sortedKeys(st.heap) {
				h0, ok := iterHead.heap[key]
				if !ok || h0 == st.heap[key] || ws.keys[key] != nil || ex.heapS[key] == nil {
					continue
				}
				if loopExtraKeys[lp.stmt] == nil {
					loopExtraKeys[lp.stmt] = map[string]*Sort{}
				}
				loopExtraKeys[lp.stmt][key] = ex.heapS[key]
				missed = true
			}
			if missed {
				panic(restartVerify{})
			}
		}
		if loopTargets != nil {
			// the loop-level modifies clause: one iteration changes nothing else
			var goals, keys []string
			for _, key := range sortedKeys(st.heap) {
				if key == "alloc" || key == "arralloc" {
					continue
				}
				h0, ok := iterHead.heap[key]
				s := ex.heapS[key]
				if !ok || h0 == st.heap[key] || s == nil || s.Idx == nil {
					continue
				}
				goals = append(goals, ex.frameCond(iterHead, st, key, s, loopTargets))
				keys = append(keys, key)
			}
			if len(goals) > 0 {
				ex.oblige(st, lname+".frame", nil, sAnd(goals...), "only locations in the loop's modifies clause change: "+strings.Join(keys, ", "), lp.stmt.Pos())
			}
		}
		ts, cs := evalInvs(st, true)
		for i, t := range ts {
			desc := "automatic range invariant"
			var props []string
			if cs[i] != nil {
				desc = cs[i].Src
				props = cs[i].Props
			}
			ex.goalIx = invIx[i]
			ex.oblige(st, lname+".preserve", props, t, desc, lp.stmt.Pos())
		}
	}
	afterBody := func(st *State) {
		st.frame.loops = st.frame.loops[:len(st.frame.loops)-1]
		post := func(st *State) { checkInv(st) }
		if lp.postFn != nil {
			lp.postFn(st, post)
		} else if lp.post != nil {
			ex.stmt(st, lp.post, post)
		} else {
			post(st)
		}
	}
	exit := func(st *State) { k(st) }
	runBody := func(st *State) {
		st.frame.loops = append(st.frame.loops, &loopCtx{label: lp.label,
			onBreak: func(st *State) {
				st.frame.loops = st.frame.loops[:len(st.frame.loops)-1]
				exit(st)
			},
			onContinue: afterBody,
		})
		body := func(st *State) { ex.block(st, lp.body.List, afterBody) }
		if lp.preBody != nil {
			lp.preBody(st, body)
		} else {
			body(st)
		}
	}
	switch {
	case lp.condFn != nil:
		lp.condFn(st, runBody, exit)
	case lp.cond != nil:
		ex.cond(st, lp.cond, runBody, exit)
	default:
		runBody(st)
	}
}

// anchorSite: source position of the statement or call an anchored clause is attached to (the
// same ordinal rules as afterAssign / afterStore / afterSend / callAnchor); false when it cannot
// be located statically.
func (ex *Exec) anchorSite(an *Anchored) (token.Pos, bool) {
	var sites []token.Pos
	ast.Inspect(ex.top.Decl.Body, func(n ast.Node) bool {
		switch x := n.(type) {
		case *ast.AssignStmt:
			for _, l := range x.Lhs {
				if lid, ok := l.(*ast.Ident); ok && an.Callee == "="+lid.Name {
					sites = append(sites, lid.Pos())
				}
				if ix, ok := l.(*ast.IndexExpr); ok {
					if lid, ok := ast.Unparen(ix.X).(*ast.Ident); ok && an.Callee == "[]="+lid.Name {
						sites = append(sites, lid.Pos())
					}
				}
			}
		case *ast.SendStmt:
			if an.Callee == "send" {
				sites = append(sites, x.Pos())
			}
		case *ast.CallExpr:
			if calleeName(x) == an.Callee {
				sites = append(sites, x.Pos())
			}
		}
		return true
	})
	sort.Slice(sites, func(i, j int) bool { return sites[i] < sites[j] })
	if an.Ord < 0 || an.Ord >= len(sites) {
		return token.NoPos, false
	}
	return sites[an.Ord], true
}

// afterStore runs `after store NAME[k]:` anchored clauses (k-th statement `NAME[...] = v` in the
// source of the function under verification).
func (ex *Exec) afterStore(st *State, id *ast.Ident) {
	if st.frame.fi != ex.top || (st.frame.closure != nil && !ex.closureTop) || ex.top.Spec == nil || len(ex.top.Spec.Anchors) == 0 {
		return
	}
	has := false
	for _, an := range ex.top.Spec.Anchors {
		if an.Callee == "[]="+id.Name {
			has = true
		}
	}
	if !has {
		return
	}
	ord := 0
	ast.Inspect(ex.top.Decl.Body, func(n ast.Node) bool {
		if as, ok := n.(*ast.AssignStmt); ok {
			for _, l := range as.Lhs {
				if ix, ok := l.(*ast.IndexExpr); ok {
					if lid, ok := ast.Unparen(ix.X).(*ast.Ident); ok && lid.Name == id.Name && lid.Pos() < id.Pos() {
						ord++
					}
				}
			}
		}
		return true
	})
	ex.runAnchors(st, "after", "[]="+id.Name, ord)
}

// afterAssign runs `after assign NAME[k]:` anchored clauses (k-th assignment to NAME in the source
// of the function under verification).
func (ex *Exec) afterAssign(st *State, id *ast.Ident) {
	if st.frame.fi != ex.top || (st.frame.closure != nil && !ex.closureTop) || ex.top.Spec == nil || len(ex.top.Spec.Anchors) == 0 {
		return
	}
	has := false
	for _, an := range ex.top.Spec.Anchors {
		if an.Callee == "="+id.Name {
			has = true
		}
	}
	if !has {
		return
	}
	ord := 0
	ast.Inspect(ex.top.Decl.Body, func(n ast.Node) bool {
		if as, ok := n.(*ast.AssignStmt); ok {
			for _, l := range as.Lhs {
				if lid, ok := l.(*ast.Ident); ok && lid.Name == id.Name && lid.Pos() < id.Pos() {
					ord++
				}
			}
		}
		return true
	})
	ex.runAnchors(st, "after", "="+id.Name, ord)
}
