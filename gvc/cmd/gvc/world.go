package main

// world.go: SMT sorts, declarations and the mapping from go/types to sorts.

import (
	"fmt"
	"go/types"
	"sort"
	"strings"
)

type SortKind int

const (
	KInt SortKind = iota
	KBool
	KRef    // pointers to structs, maps, chans, interfaces, funcs, errors: one sort
	KSlice  // one datatype (arr, off, len, cap) for every element type
	KUn     // uninterpreted (type parameters, string, float)
	KStruct // struct by value: datatype per instance
	KSeq    // ghost: (Array Int Elem)
	KSet    // ghost: (Array Elem Bool)
	KMapG   // ghost: (Array Idx Elem)
	KArrId
	KTuple // multi-value (only as datatype for callbacks returning several results)
)

type Sort struct {
	Kind   SortKind
	Name   string // SMT text of the sort
	Elem   *Sort
	Idx    *Sort
	Fields []SField // KStruct / KTuple
	Go     types.Type
}

type SField struct {
	Name string
	S    *Sort
	Sel  string // SMT selector
	Go   types.Type
}

var (
	sInt   = &Sort{Kind: KInt, Name: "Int"}
	sBool  = &Sort{Kind: KBool, Name: "Bool"}
	sRef   = &Sort{Kind: KRef, Name: "Ref"}
	sArrId = &Sort{Kind: KArrId, Name: "ArrId"}
)

// Val is a symbolic value: SMT term text, sort, and (when known) the Go type.
type Val struct {
	T  string
	S  *Sort
	Go types.Type
}

type World struct {
	sortDecls []string
	decls     []string // ordered: declare-fun / define-fun / declare-const
	axioms    []string // global assumptions
	declared  map[string]bool
	sorts     map[string]*Sort
	fresh     map[string]int
	qual      types.Qualifier
	assumed   map[string]bool // names of assume-ext / trusted things used
	distinct  map[string][]string
	arrOfFns  []string
	constSort map[string]string // sort name of every fresh constant
	weak      map[string]bool // assumptions that are rarely needed (typing axioms): dropped in a retry
}

func newWorld() *World {
	w := &World{declared: map[string]bool{}, sorts: map[string]*Sort{}, fresh: map[string]int{}, assumed: map[string]bool{}, weak: map[string]bool{}}
	w.qual = func(p *types.Package) string { return p.Name() }
	w.sortDecls = append(w.sortDecls,
		"(declare-sort Ref 0)",
		"(declare-sort ArrId 0)",
		"(declare-datatypes ((Slice 0)) (((mkslice (s_arr ArrId) (s_off Int) (s_len Int) (s_cap Int)))))",
	)
	w.decls = append(w.decls,
		"(declare-const nil Ref)",
		"(declare-const nilarr ArrId)",
	)
	return w
}

func sym(s string) string {
	simple := true
	for _, c := range s {
		if !(c >= 'a' && c <= 'z' || c >= 'A' && c <= 'Z' || c >= '0' && c <= '9' || c == '_' || c == '.' || c == '$' || c == '!') {
			simple = false
			break
		}
	}
	if simple && len(s) > 0 && !(s[0] >= '0' && s[0] <= '9') {
		return "g_" + s
	}
	s = strings.ReplaceAll(s, "|", "!")
	s = strings.ReplaceAll(s, "\\", "!")
	return "|g_" + s + "|"
}

func (w *World) freshName(base string) string {
	w.fresh[base]++
	return sym(fmt.Sprintf("%s!%d", base, w.fresh[base]))
}

func (w *World) declConst(name string, s *Sort) {
	if w.declared[name] {
		return
	}
	w.declared[name] = true
	w.decls = append(w.decls, fmt.Sprintf("(declare-const %s %s)", name, s.Name))
}

func (w *World) declFun(name string, args []*Sort, res *Sort) {
	if w.declared[name] {
		return
	}
	w.declared[name] = true
	var a []string
	for _, s := range args {
		a = append(a, s.Name)
	}
	w.decls = append(w.decls, fmt.Sprintf("(declare-fun %s (%s) %s)", name, strings.Join(a, " "), res.Name))
}

func (w *World) freshConst(base string, s *Sort) string {
	n := w.freshName(base)
	w.declared[n] = true
	if w.constSort == nil {
		w.constSort = map[string]string{}
	}
	w.constSort[n] = s.Name
	w.decls = append(w.decls, fmt.Sprintf("(declare-const %s %s)", n, s.Name))
	return n
}

func (w *World) define(base string, s *Sort, body string) string {
	n := w.freshName(base)
	w.declared[n] = true
	w.decls = append(w.decls, fmt.Sprintf("(define-fun %s () %s %s)", n, s.Name, body))
	return n
}

// defineOpaque names a term by a fresh constant and an equation (instead of define-fun, which the
// solvers inline: a select over a stored heap version inside the term then turns into an ite and
// the term can no longer be used in a pattern).
func (w *World) defineOpaque(base string, s *Sort, body string) string {
	n := w.freshConst(base, s)
	w.axioms = append(w.axioms, fmt.Sprintf("(= %s %s)", n, body))
	return n
}

func (w *World) unSort(name string) *Sort {
	key := "un:" + name
	if s, ok := w.sorts[key]; ok {
		return s
	}
	s := &Sort{Kind: KUn, Name: sym("S_" + name)}
	w.sorts[key] = s
	w.sortDecls = append(w.sortDecls, fmt.Sprintf("(declare-sort %s 0)", s.Name))
	return s
}

func (w *World) seqSort(elem *Sort) *Sort {
	key := "seq:" + elem.Name
	if s, ok := w.sorts[key]; ok {
		return s
	}
	s := &Sort{Kind: KSeq, Name: fmt.Sprintf("(Array Int %s)", elem.Name), Elem: elem, Idx: sInt}
	w.sorts[key] = s
	return s
}

func (w *World) setSort(elem *Sort) *Sort {
	key := "set:" + elem.Name
	if s, ok := w.sorts[key]; ok {
		return s
	}
	s := &Sort{Kind: KSet, Name: fmt.Sprintf("(Array %s Bool)", elem.Name), Elem: sBool, Idx: elem}
	w.sorts[key] = s
	return s
}

func (w *World) mapGSort(idx, elem *Sort) *Sort {
	key := "mapg:" + idx.Name + ":" + elem.Name
	if s, ok := w.sorts[key]; ok {
		return s
	}
	s := &Sort{Kind: KMapG, Name: fmt.Sprintf("(Array %s %s)", idx.Name, elem.Name), Elem: elem, Idx: idx}
	w.sorts[key] = s
	return s
}

func (w *World) typeString(t types.Type) string {
	return types.TypeString(t, w.qual)
}

// sortOf maps a (fully substituted) Go type to a sort.
func (w *World) sortOf(t types.Type) *Sort {
	t = types.Unalias(t)
	switch u := t.(type) {
	case *types.Basic:
		switch {
		case u.Info()&types.IsInteger != 0:
			return sInt
		case u.Info()&types.IsBoolean != 0:
			return sBool
		case u.Info()&types.IsString != 0:
			return w.unSort("string")
		case u.Info()&types.IsFloat != 0:
			return w.unSort("float")
		case u.Kind() == types.UntypedNil:
			return sRef
		case u.Kind() == types.UnsafePointer:
			return sRef
		}
		panic(unsupported("basic type " + u.String()))
	case *types.TypeParam:
		return w.unSort(u.Obj().Name())
	case *types.Pointer:
		if a, ok := types.Unalias(u.Elem()).Underlying().(*types.Array); ok {
			// a pointer to an array is represented by the slice over the whole array
			return &Sort{Kind: KSlice, Name: "Slice", Elem: w.sortOf(a.Elem()), Go: t}
		}
		return sRef
	case *types.Map, *types.Chan, *types.Signature, *types.Interface:
		return sRef
	case *types.Slice:
		return &Sort{Kind: KSlice, Name: "Slice", Elem: w.sortOf(u.Elem()), Go: t}
	case *types.Array:
		// arrays by value are modelled as slices over a dedicated backing identity
		return &Sort{Kind: KSlice, Name: "Slice", Elem: w.sortOf(u.Elem()), Go: t}
	case *types.Named:
		switch uu := u.Underlying().(type) {
		case *types.Struct:
			return w.structSort(u, uu)
		default:
			_ = uu
			return w.sortOf(u.Underlying())
		}
	case *types.Struct:
		return w.structSort(nil, u)
	case *types.Tuple:
		return w.tupleSort(u)
	}
	panic(unsupported("type " + t.String()))
}

func (w *World) structSort(n *types.Named, st *types.Struct) *Sort {
	var name string
	if n != nil {
		name = w.typeString(n)
	} else {
		name = w.typeString(st)
	}
	key := "struct:" + name
	if s, ok := w.sorts[key]; ok {
		return s
	}
	s := &Sort{Kind: KStruct, Name: sym("D_" + name), Go: n}
	if n == nil {
		s.Go = st
	}
	w.sorts[key] = s
	for i := 0; i < st.NumFields(); i++ {
		f := st.Field(i)
		fs := w.sortOf(f.Type())
		s.Fields = append(s.Fields, SField{Name: f.Name(), S: fs, Sel: sym("D_" + name + "." + f.Name()), Go: f.Type()})
	}
	w.declDatatype(s, "mk_"+name)
	return s
}

func (w *World) tupleSort(t *types.Tuple) *Sort {
	name := w.typeString(t)
	key := "tuple:" + name
	if s, ok := w.sorts[key]; ok {
		return s
	}
	s := &Sort{Kind: KTuple, Name: sym("Tup_" + name), Go: t}
	w.sorts[key] = s
	for i := 0; i < t.Len(); i++ {
		fs := w.sortOf(t.At(i).Type())
		s.Fields = append(s.Fields, SField{Name: fmt.Sprint(i), S: fs, Sel: sym(fmt.Sprintf("Tup_%s.%d", name, i)), Go: t.At(i).Type()})
	}
	w.declDatatype(s, "mktup_"+name)
	return s
}

func (w *World) declDatatype(s *Sort, ctor string) {
	var fs []string
	for _, f := range s.Fields {
		fs = append(fs, fmt.Sprintf("(%s %s)", f.Sel, f.S.Name))
	}
	c := sym(ctor)
	if len(fs) == 0 {
		w.sortDecls = append(w.sortDecls, fmt.Sprintf("(declare-datatypes ((%s 0)) (((%s))))", s.Name, c))
	} else {
		w.sortDecls = append(w.sortDecls, fmt.Sprintf("(declare-datatypes ((%s 0)) (((%s %s))))", s.Name, c, strings.Join(fs, " ")))
	}
	s.Idx = &Sort{Name: c} // constructor name smuggled in Idx.Name
}

func (s *Sort) ctor() string { return s.Idx.Name }

func (w *World) mkStruct(s *Sort, vals []string) string {
	if len(vals) == 0 {
		return s.ctor()
	}
	return fmt.Sprintf("(%s %s)", s.ctor(), strings.Join(vals, " "))
}

// zero value of a sort
func (w *World) zero(s *Sort) string {
	switch s.Kind {
	case KInt:
		return "0"
	case KBool:
		return "false"
	case KRef:
		return "nil"
	case KSlice:
		return "(mkslice nilarr 0 0 0)"
	case KUn:
		n := "zero_" + s.Name
		n = sym(strings.Trim(n, "|"))
		w.declConst(n, s)
		return n
	case KStruct, KTuple:
		var vs []string
		for _, f := range s.Fields {
			vs = append(vs, w.zero(f.S))
		}
		return w.mkStruct(s, vs)
	case KArrId:
		return "nilarr"
	}
	panic(unsupported("zero of sort " + s.Name))
}

func (w *World) memSort(elem *Sort) *Sort {
	return &Sort{Kind: KMapG, Name: fmt.Sprintf("(Array ArrId (Array Int %s))", elem.Name), Idx: sArrId, Elem: w.seqSort(elem)}
}

type unsupportedErr struct{ msg string }

func unsupported(msg string) unsupportedErr { return unsupportedErr{msg} }
func (u unsupportedErr) Error() string      { return "unsupported: " + u.msg }

func sortedKeys[V any](m map[string]V) []string {
	var ks []string
	for k := range m {
		ks = append(ks, k)
	}
	sort.Strings(ks)
	return ks
}

// small SMT builders
func sAnd(xs ...string) string {
	var ys []string
	for _, x := range xs {
		if x == "true" || x == "" {
			continue
		}
		ys = append(ys, x)
	}
	switch len(ys) {
	case 0:
		return "true"
	case 1:
		return ys[0]
	}
	return "(and " + strings.Join(ys, " ") + ")"
}
func sOr(xs ...string) string {
	var ys []string
	for _, x := range xs {
		if x == "false" || x == "" {
			continue
		}
		ys = append(ys, x)
	}
	switch len(ys) {
	case 0:
		return "false"
	case 1:
		return ys[0]
	}
	return "(or " + strings.Join(ys, " ") + ")"
}
func sNot(x string) string {
	if x == "true" {
		return "false"
	}
	if x == "false" {
		return "true"
	}
	return "(not " + x + ")"
}
func sImp(a, b string) string {
	if a == "true" {
		return b
	}
	return "(=> " + a + " " + b + ")"
}
func sEq(a, b string) string        { return "(= " + a + " " + b + ")" }
func sIte(c, a, b string) string    { return "(ite " + c + " " + a + " " + b + ")" }
func sSel(a, i string) string       { return "(select " + a + " " + i + ")" }
func sStore(a, i, v string) string  { return "(store " + a + " " + i + " " + v + ")" }
func sApp(f string, a ...string) string {
	if len(a) == 0 {
		return f
	}
	return "(" + f + " " + strings.Join(a, " ") + ")"
}
func sIntLit(n int64) string {
	if n < 0 {
		return fmt.Sprintf("(- %d)", -n)
	}
	return fmt.Sprint(n)
}

// undeclareFrom drops every declaration made since index n (used when a scratch evaluation is abandoned).
func (w *World) undeclareFrom(n int) {
	for _, d := range w.decls[n:] {
		fs := strings.Fields(strings.TrimLeft(d, "("))
		if len(fs) >= 2 {
			name := fs[1]
			if strings.HasPrefix(name, "|") {
				// quoted symbol may contain spaces: take up to the closing bar
				rest := d[strings.Index(d, "|"):]
				if e := strings.Index(rest[1:], "|"); e >= 0 {
					name = rest[:e+2]
				}
			}
			delete(w.declared, name)
		}
	}
	w.decls = w.decls[:n]
}
