package main

// replaygen.go: replay of a failed obligation on the real code.
//
// For a free function whose parameters and results are built from integers, booleans, strings,
// slices, maps and function values, gvc generates an in-package Go test that calls the REAL function
// (injected with `go test -overlay`, nothing is written into the repository) on candidate inputs and
// evaluates the function's own contract on the concrete outcome: the `requires` clauses select the
// admissible inputs, `panics when` says when a panic is expected, and every top-level conjunct of
// every `ensures` clause that the translator can express in Go is checked on the result. Candidate
// inputs are, first, the values the solver's countermodel assigns to the integer parameters and to
// the lengths of the slice parameters (when a solver answered `sat`), then an enumeration of small
// values. Type parameters are instantiated with int (or the core type of their constraint).
// Integer quantifiers of the contract are evaluated over a finite window that covers every index of
// every argument and result, so a reported violation is a real violation of the clause; a clause
// that needs ghost state, allocation facts or uninterpreted spec functions is skipped.
//
// A hit upgrades the VIOLATION line: it then carries a replay file with the failing input and does
// not end in no-failing-input-found.

import (
	"encoding/json"
	"fmt"
	"go/types"
	"os"
	"os/exec"
	"path/filepath"
	"regexp"
	"sort"
	"strings"
	"time"
)

type replayOutcome struct {
	tried   bool
	found   bool
	clause  string
	input   string
	output  string
	file    string
	reason  string // why no replay was possible
	nCands  int
	modelIn string
}

var replayMemo = map[string]*replayOutcome{}

type rgen struct {
	prog    *Program
	fi      *FuncInfo
	tsub    map[*types.TypeParam]types.Type
	qual    types.Qualifier
	imports map[string]bool
	fail    string
	// names
	params  []string // Go variable names of the parameters
	ptypes  []types.Type
	results []string
	rtypes  []types.Type
	pname   map[string]string // spec identifier -> Go variable (current state)
	oname   map[string]string // spec identifier -> Go variable holding the entry-state copy
}

func (g *rgen) failf(f string, a ...interface{}) {
	if g.fail == "" {
		g.fail = fmt.Sprintf(f, a...)
	}
}

// instantiate: int for an unconstrained/comparable/ordered type parameter, the core type for ~T constraints
func (g *rgen) instantiate(tp *types.TypeParam, all *types.TypeParamList, depth int) types.Type {
	if t, ok := g.tsub[tp]; ok {
		return t
	}
	if depth > 4 {
		return types.Typ[types.Int]
	}
	g.tsub[tp] = types.Typ[types.Int] // provisional (cycles)
	if iface, ok := tp.Constraint().Underlying().(*types.Interface); ok {
		for i := 0; i < iface.NumEmbeddeds(); i++ {
			if u, ok := iface.EmbeddedType(i).(*types.Union); ok && u.Len() == 1 && u.Term(0).Tilde() {
				ct := u.Term(0).Type()
				// instantiate the parameters it mentions first
				for j := 0; j < all.Len(); j++ {
					g.instantiate(all.At(j), all, depth+1)
				}
				switch ct.Underlying().(type) {
				case *types.Map, *types.Slice:
					g.tsub[tp] = substType(ct, g.tsub)
					return g.tsub[tp]
				}
			}
		}
	}
	return g.tsub[tp]
}

func (g *rgen) tstr(t types.Type) string { return types.TypeString(t, g.qual) }

func isIntKind(t types.Type) (*types.Basic, bool) {
	b, ok := types.Unalias(t).Underlying().(*types.Basic)
	if !ok {
		return nil, false
	}
	return b, b.Info()&types.IsInteger != 0
}

// supported: can candidate values of this type be written down?
func (g *rgen) supported(t types.Type, depth int) bool {
	if depth > 3 {
		return false
	}
	if n, ok := types.Unalias(t).(*types.Named); ok {
		if n.Obj().Pkg() != nil && n.Obj().Pkg() != g.fi.Pkg.P.Types {
			return false
		}
	}
	switch u := types.Unalias(t).Underlying().(type) {
	case *types.Basic:
		return u.Info()&(types.IsInteger|types.IsBoolean|types.IsString|types.IsFloat) != 0
	case *types.Slice:
		return g.supported(u.Elem(), depth+1)
	case *types.Map:
		if _, ok := isIntKind(u.Key()); !ok {
			return false
		}
		if st, ok := u.Elem().Underlying().(*types.Struct); ok && st.NumFields() == 0 {
			return true
		}
		return g.supported(u.Elem(), depth+1)
	case *types.Struct:
		return u.NumFields() == 0
	case *types.Signature:
		if u.Variadic() || u.Results().Len() != 1 || u.Params().Len() == 0 || u.Params().Len() > 2 {
			return false
		}
		for i := 0; i < u.Params().Len(); i++ {
			if _, ok := isIntKind(u.Params().At(i).Type()); !ok {
				return false
			}
		}
		rt := u.Results().At(0).Type()
		if _, ok := isIntKind(rt); ok {
			return true
		}
		b, ok := rt.Underlying().(*types.Basic)
		return ok && b.Info()&types.IsBoolean != 0
	}
	return false
}

func intLits(b *types.Basic, extra []int64) []string {
	base := []int64{0, 1, 2, 3, 5}
	signed := b.Info()&types.IsUnsigned == 0
	if signed {
		base = append(base, -1, -3)
		switch b.Kind() {
		case types.Int8:
			base = append(base, -128, 127)
		case types.Int16:
			base = append(base, -32768, 32767)
		case types.Int32:
			base = append(base, -2147483648, 2147483647)
		}
		// no extreme values for int/int64: the contracts are stated over mathematical integers
		// ("int does not overflow" is a listed assumption), so evaluating them with machine
		// arithmetic at the edge of the range would blame the code for the evaluator's own wrap-around
	}
	var out []string
	seen := map[int64]bool{}
	for _, v := range append(append([]int64{}, extra...), base...) {
		if !signed && v < 0 {
			continue
		}
		if v > 1<<31 || v < -(1<<31) {
			continue
		}
		if seen[v] {
			continue
		}
		seen[v] = true
		out = append(out, fmt.Sprint(v))
	}
	return out
}

// cands: Go expressions (each evaluated afresh for every run) of candidate values of type t
func (g *rgen) cands(t types.Type, hintInts []int64, hintLens []int64) []string {
	ts := g.tstr(t)
	switch u := types.Unalias(t).Underlying().(type) {
	case *types.Basic:
		switch {
		case u.Info()&types.IsInteger != 0:
			var out []string
			for _, l := range intLits(u, hintInts) {
				out = append(out, ts+"("+l+")")
			}
			return out
		case u.Info()&types.IsBoolean != 0:
			return []string{ts + "(true)", ts + "(false)"}
		case u.Info()&types.IsString != 0:
			return []string{ts + `("")`, ts + `("a")`, ts + `("ab")`}
		case u.Info()&types.IsFloat != 0:
			return []string{ts + "(0)", ts + "(1.5)", ts + "(-2)"}
		}
	case *types.Struct:
		return []string{ts + "{}"}
	case *types.Slice:
		es := g.tstr(u.Elem())
		if _, ok := isIntKind(u.Elem()); ok {
			var out []string
			out = append(out, ts+"(nil)", ts+"{}")
			// the solver's countermodel first: its element values, then sequences of its lengths
			for _, sq := range modelSeqs {
				var xs []string
				for _, v := range sq {
					xs = append(xs, fmt.Sprint(v))
				}
				out = append(out, ts+"{"+strings.Join(xs, ",")+"}")
			}
			for _, n := range hintLens {
				if n > 0 && n <= 12 {
					var xs, ys []string
					for i := int64(0); i < n; i++ {
						xs = append(xs, fmt.Sprint(i%3))
						ys = append(ys, fmt.Sprint((i/2)%2))
					}
					out = append(out, ts+"{"+strings.Join(xs, ",")+"}", ts+"{"+strings.Join(ys, ",")+"}")
				}
			}
			vals := []string{"0", "1", "2"}
			for _, a := range vals {
				out = append(out, ts+"{"+a+"}")
			}
			for _, a := range vals {
				for _, b := range vals {
					out = append(out, ts+"{"+a+","+b+"}")
				}
			}
			for _, a := range vals {
				for _, b := range vals {
					for _, c := range vals {
						out = append(out, ts+"{"+a+","+b+","+c+"}")
					}
				}
			}
			out = append(out, ts+"{0,0,1,1}", ts+"{0,1,1,0}", ts+"{1,0,0,2,2}", ts+"{2,2,1,1,0,0}", ts+"{0,1,2,0,1,2,0}")
			// spare capacity and a window into a larger array
			out = append(out, "append(make("+ts+", 0, 8), 1, 2)", "append(make("+ts+", 0, 16), 0, 1, 0)", "("+ts+"{7,0,1,1,7,7})[1:4:5]", "make("+ts+", 0, 4)")
			return out
		}
		switch u.Elem().Underlying().(type) {
		case *types.Slice:
			return []string{ts + "(nil)", ts + "{}", ts + "{{}}", ts + "{{0}}", ts + "{{0,1},{2}}", ts + "{{},{1},{}}", ts + "{{0},{0,1,2}}", ts + "{{1,1},{1},{0,2}}", ts + "{nil,{2,0}}", ts + "{{0,2},{1,3},{1,2,4}}"}
		case *types.Map:
			inner := g.cands(u.Elem(), nil, nil)
			out := []string{ts + "(nil)", ts + "{}"}
			pick := func(ix ...int) {
				var xs []string
				for _, i := range ix {
					if i < len(inner) {
						xs = append(xs, inner[i])
					}
				}
				out = append(out, ts+"{"+strings.Join(xs, ",")+"}")
			}
			for i := range inner {
				pick(i)
			}
			for i := range inner {
				for j := range inner {
					if i != j {
						pick(i, j)
					}
				}
			}
			pick(2, 3, 4)
			pick(5, 3, 2)
			pick(4, 5, 3)
			if len(out) > 60 {
				out = out[:60]
			}
			return out
		}
		_ = es
		return []string{ts + "(nil)", ts + "{}"}
	case *types.Map:
		if st, ok := u.Elem().Underlying().(*types.Struct); ok && st.NumFields() == 0 {
			return []string{ts + "(nil)", ts + "{}", ts + "{0:{}}", ts + "{0:{},1:{}}", ts + "{1:{},2:{}}", ts + "{0:{},1:{},2:{}}", ts + "{2:{}}", ts + "{0:{},2:{},3:{},4:{}}"}
		}
		if _, ok := isIntKind(u.Elem()); ok {
			return []string{ts + "(nil)", ts + "{}", ts + "{0:0}", ts + "{0:1,1:1}", ts + "{0:1,1:2,2:1}", ts + "{0:0,1:1,2:2}", ts + "{3:1,4:1,5:1}"}
		}
		return []string{ts + "(nil)", ts + "{}"}
	case *types.Signature:
		var ps []string
		names := []string{"a", "b"}
		for i := 0; i < u.Params().Len(); i++ {
			ps = append(ps, names[i]+" "+g.tstr(u.Params().At(i).Type()))
		}
		rt := u.Results().At(0).Type()
		rs := g.tstr(rt)
		hd := "func(" + strings.Join(ps, ", ") + ") " + rs + " { return "
		var bodies []string
		_, intRes := isIntKind(rt)
		switch {
		case u.Params().Len() == 1 && !intRes:
			bodies = []string{"a%2 == 0", "a > 0", "true", "false", "a == 1"}
		case u.Params().Len() == 1 && intRes:
			bodies = []string{rs + "(a % 2)", rs + "(a)", rs + "(0)", rs + "(a / 2)"}
		case u.Params().Len() == 2 && !intRes:
			bodies = []string{"a == b", "a < b", "a/2 == b/2", "a > b", "true", "false"}
		default:
			bodies = []string{rs + "(a) + " + rs + "(b)", rs + "(a)*2 + " + rs + "(b)", rs + "(b)"}
		}
		var out []string
		for _, b := range bodies {
			out = append(out, hd+b+" }")
		}
		return out
	}
	return nil
}

// copyExpr: Go expression that deep-copies x of type t (entry-state snapshot for old(...))
func (g *rgen) copyExpr(t types.Type, x string, depth int) string {
	ts := g.tstr(t)
	switch u := types.Unalias(t).Underlying().(type) {
	case *types.Slice:
		switch u.Elem().Underlying().(type) {
		case *types.Slice, *types.Map:
			if depth < 2 {
				return "func() " + ts + " { if " + x + " == nil { return nil }; o := make(" + ts + ", len(" + x + ")); for i := range " + x + " { o[i] = " + g.copyExpr(u.Elem(), x+"[i]", depth+1) + " }; return o }()"
			}
		}
		return "func() " + ts + " { if " + x + " == nil { return nil }; return append(" + ts + "{}, " + x + "...) }()"
	case *types.Map:
		return "func() " + ts + " { if " + x + " == nil { return nil }; o := make(" + ts + ", len(" + x + ")); for k, v := range " + x + " { o[k] = v }; return o }()"
	}
	return x
}

// ---- spec expression -> Go expression ----

type trEnv struct {
	old   bool
	pos   bool              // positive position of a clause to be checked: a conjunct that cannot be expressed may be dropped (weakens the check, never strengthens it)
	bound map[string]string // bound variable / macro parameter -> Go code
}

func (g *rgen) macro(name string) *Macro {
	if g.fi.Pkg.Spec != nil {
		if m, ok := g.fi.Pkg.Spec.Macros[name]; ok {
			return m
		}
	}
	var found *Macro
	for _, ps := range g.prog.AllSpecs {
		if m, ok := ps.Macros[name]; ok {
			if found != nil && found != m {
				return nil
			}
			found = m
		}
	}
	return found
}

func (g *rgen) typeName(s string) (string, bool) {
	// a type parameter or a basic type named in a spec
	sig := g.fi.Obj.Type().(*types.Signature)
	for i := 0; i < sig.TypeParams().Len(); i++ {
		if sig.TypeParams().At(i).Obj().Name() == s {
			return g.tstr(g.tsub[sig.TypeParams().At(i)]), true
		}
	}
	switch s {
	case "int", "int8", "int16", "int32", "int64", "uint", "uint8", "uint16", "uint32", "uint64", "bool", "string":
		return s, true
	}
	return "", false
}

func (g *rgen) tr(e SExpr, env *trEnv) (string, bool) {
	switch x := e.(type) {
	case *SIdent:
		if c, ok := env.bound[x.Name]; ok {
			return c, true
		}
		if env.old {
			if c, ok := g.oname[x.Name]; ok {
				return c, true
			}
		}
		if c, ok := g.pname[x.Name]; ok {
			return c, true
		}
		if m := g.macro(x.Name); m != nil && len(m.Params) == 0 {
			return g.tr(m.Body, env)
		}
		return "", false
	case *SInt:
		return x.V, true
	case *SBoolL:
		return fmt.Sprint(x.V), true
	case *SNil:
		return "nil", true
	case *SBin:
		if x.Op == "&&" && env.pos {
			l, ok1 := g.tr(x.L, env)
			r, ok2 := g.tr(x.R, env)
			switch {
			case ok1 && ok2:
				return "(" + l + " && " + r + ")", true
			case ok1:
				return l, true
			case ok2:
				return r, true
			}
			return "", false
		}
		if x.Op == "==>" && env.pos {
			en := *env
			en.pos = false
			l, ok1 := g.tr(x.L, &en)
			r, ok2 := g.tr(x.R, env)
			if !ok1 || !ok2 {
				return "", false
			}
			return "(!(" + l + ") || (" + r + "))", true
		}
		if env.pos {
			// any other operator: its operands must be expressed exactly
			en := *env
			en.pos = false
			env = &en
		}
		l, ok1 := g.tr(x.L, env)
		r, ok2 := g.tr(x.R, env)
		if !ok1 || !ok2 {
			return "", false
		}
		switch x.Op {
		case "&&", "||", "<", "<=", ">", ">=", "+", "-", "*", "/", "%":
			return "(" + l + " " + x.Op + " " + r + ")", true
		case "==>":
			return "(!(" + l + ") || (" + r + "))", true
		case "<==>":
			return "((" + l + ") == (" + r + "))", true
		case "==":
			return "vEq(" + l + ", " + r + ")", true
		case "!=":
			return "!vEq(" + l + ", " + r + ")", true
		}
		return "", false
	case *SUn:
		if env.pos {
			en := *env
			en.pos = false
			env = &en
		}
		v, ok := g.tr(x.X, env)
		if !ok {
			return "", false
		}
		if x.Op == "!" || x.Op == "-" {
			return "(" + x.Op + v + ")", true
		}
		return "", false
	case *SCond:
		if env.pos {
			en := *env
			en.pos = false
			env = &en
		}
		c, ok1 := g.tr(x.C, env)
		a, ok2 := g.tr(x.A, env)
		b, ok3 := g.tr(x.B, env)
		if !ok1 || !ok2 || !ok3 {
			return "", false
		}
		return "vIte(" + c + ", " + a + ", " + b + ")", true
	case *SOld:
		e2 := *env
		e2.old = true
		return g.tr(x.X, &e2)
	case *SIndex:
		a, ok1 := g.tr(x.X, env)
		i, ok2 := g.tr(x.I, env)
		if !ok1 || !ok2 {
			return "", false
		}
		return a + "[" + i + "]", true
	case *SSliceE:
		a, ok := g.tr(x.X, env)
		if !ok {
			return "", false
		}
		lo, hi := "", ""
		if x.Lo != nil {
			if lo, ok = g.tr(x.Lo, env); !ok {
				return "", false
			}
		}
		if x.Hi != nil {
			if hi, ok = g.tr(x.Hi, env); !ok {
				return "", false
			}
		}
		return a + "[" + lo + ":" + hi + "]", true
	case *SCall:
		if env.pos {
			if idm, ok := x.Fn.(*SIdent); !ok || g.macro(idm.Name) == nil {
				en := *env
				en.pos = false
				env = &en
			}
		}
		id, isId := x.Fn.(*SIdent)
		var args []string
		trArgs := func() bool {
			for _, a := range x.Args {
				c, ok := g.tr(a, env)
				if !ok {
					return false
				}
				args = append(args, c)
			}
			return true
		}
		if isId {
			if _, isParam := g.pname[id.Name]; !isParam {
				switch id.Name {
				case "len", "cap":
					// the header of a slice parameter (length, capacity) is the same before and after
					// the call; the entry-state copy used for old(s[i]) does not preserve the capacity
					if a, ok := x.Args[0].(*SIdent); ok && env.old {
						if _, bound := env.bound[a.Name]; !bound {
							if c, ok := g.pname[a.Name]; ok && strings.HasPrefix(c, "p") {
								return id.Name + "(" + c + ")", true
							}
						}
					}
					if !trArgs() {
						return "", false
					}
					return id.Name + "(" + strings.Join(args, ", ") + ")", true
				case "min", "max":
					if !trArgs() || len(args) != 2 {
						return "", false
					}
					return "v" + strings.Title(id.Name) + "(" + strings.Join(args, ", ") + ")", true
				case "zero":
					if a, ok := x.Args[0].(*SIdent); ok {
						if tn, ok := g.typeName(a.Name); ok {
							return "(*new(" + tn + "))", true
						}
					}
					if !trArgs() {
						return "", false
					}
					return "vZero(" + args[0] + ")", true
				case "minval":
					if !trArgs() || len(args) != 1 {
						return "", false
					}
					return "vMinval(" + args[0] + ")", true
				case "has":
					if !trArgs() || len(args) != 2 {
						return "", false
					}
					return "vHas(" + args[0] + ", " + args[1] + ")", true
				case "touch", "hint", "hint2", "hint3":
					return "true", true
				}
				if m := g.macro(id.Name); m != nil && len(m.Params) == len(x.Args) {
					{
						en := *env
						en.pos = false
						saved := env
						env = &en
						okA := trArgs()
						env = saved
						if !okA {
							return "", false
						}
					}
					e2 := &trEnv{old: env.old, pos: env.pos, bound: map[string]string{}}
					for k, v := range env.bound {
						e2.bound[k] = v
					}
					for i, p := range m.Params {
						e2.bound[p] = "(" + args[i] + ")"
					}
					return g.tr(m.Body, e2)
				}
				return "", false
			}
		}
		f, ok := g.tr(x.Fn, env)
		if !ok || !trArgs() {
			return "", false
		}
		return f + "(" + strings.Join(args, ", ") + ")", true
	case *SQuant:
		e2 := &trEnv{old: env.old, pos: env.pos && x.Forall, bound: map[string]string{}}
		for k, v := range env.bound {
			e2.bound[k] = v
		}
		var names []string
		for _, v := range x.Vars {
			tn := "int"
			if t, ok := g.typeName(v.Type); ok {
				tn = t
			}
			if tn != "int" {
				// quantification over values of another integer type: convert from the window
				switch tn {
				case "int8", "int16", "int32", "int64", "uint", "uint8", "uint16", "uint32", "uint64":
				default:
					return "", false
				}
			}
			gn := "q_" + v.Name
			e2.bound[v.Name] = tn + "(" + gn + ")"
			if tn == "int" {
				e2.bound[v.Name] = gn
			}
			names = append(names, gn)
		}
		body, ok := g.tr(x.Body, e2)
		if !ok {
			return "", false
		}
		fn := "vForall"
		if !x.Forall {
			fn = "vExists"
		}
		code := body
		for i := len(names) - 1; i >= 0; i-- {
			code = fn + "(vW, func(" + names[i] + " int) bool { return " + code + " })"
		}
		return code, true
	}
	return "", false
}

// conjuncts of a clause (top-level &&)
func specConjuncts(e SExpr) []SExpr {
	if b, ok := e.(*SBin); ok && b.Op == "&&" {
		return append(specConjuncts(b.L), specConjuncts(b.R)...)
	}
	return []SExpr{e}
}

const replayHelpers = `
func vEq(a, b any) bool {
	va, vb := reflect.ValueOf(a), reflect.ValueOf(b)
	nilA := a == nil || ((va.Kind() == reflect.Slice || va.Kind() == reflect.Map || va.Kind() == reflect.Func || va.Kind() == reflect.Pointer || va.Kind() == reflect.Interface) && va.IsNil())
	nilB := b == nil || ((vb.Kind() == reflect.Slice || vb.Kind() == reflect.Map || vb.Kind() == reflect.Func || vb.Kind() == reflect.Pointer || vb.Kind() == reflect.Interface) && vb.IsNil())
	if a == nil || b == nil {
		return nilA && nilB
	}
	if va.Kind() == reflect.Slice && vb.Kind() == reflect.Slice {
		// slice values are equal when they denote the same window (spec: same array, offset, length)
		if va.Len() != vb.Len() {
			return false
		}
		if va.Len() == 0 {
			return true
		}
		return va.Pointer() == vb.Pointer()
	}
	if va.Kind() == reflect.Func || va.Kind() == reflect.Map {
		return nilA == nilB && (nilA || va.Pointer() == vb.Pointer())
	}
	if va.CanInt() && vb.CanInt() {
		return va.Int() == vb.Int()
	}
	if va.CanUint() && vb.CanUint() {
		return va.Uint() == vb.Uint()
	}
	if va.CanInt() && vb.CanUint() {
		return va.Int() >= 0 && uint64(va.Int()) == vb.Uint()
	}
	if va.CanUint() && vb.CanInt() {
		return vb.Int() >= 0 && uint64(vb.Int()) == va.Uint()
	}
	return reflect.DeepEqual(a, b)
}
func vIte[T any](c bool, a, b T) T {
	if c {
		return a
	}
	return b
}
func vZero[T any](x T) T { var z T; return z }
func vMinval[T ~int | ~int8 | ~int16 | ~int32 | ~int64](x T) T {
	return T(1) << (reflect.TypeOf(x).Bits() - 1) // least value of a signed type
}
func vMin[T ~int | ~int8 | ~int16 | ~int32 | ~int64 | ~uint | ~uint8 | ~uint16 | ~uint32 | ~uint64](a, b T) T {
	if a < b {
		return a
	}
	return b
}
func vMax[T ~int | ~int8 | ~int16 | ~int32 | ~int64 | ~uint | ~uint8 | ~uint16 | ~uint32 | ~uint64](a, b T) T {
	if a > b {
		return a
	}
	return b
}
func vHas[K comparable, V any, M ~map[K]V](m M, k K) bool { _, ok := m[k]; return ok }
func vForall(w int, f func(int) bool) bool {
	for i := -w; i <= w; i++ {
		if !f(i) {
			return false
		}
	}
	return true
}
func vExists(w int, f func(int) bool) bool {
	for i := -w; i <= w; i++ {
		if f(i) {
			return true
		}
	}
	return false
}
// vTry evaluates a clause; ok is false when the clause itself cannot be evaluated on this input
// (an index outside the window of a slice: the spec is partial there)
func vTry(f func() bool) (val bool, ok bool) {
	defer func() {
		if recover() != nil {
			val, ok = false, false
		}
	}()
	return f(), true
}
func vSize(xs ...any) int {
	n := 3
	for _, x := range xs {
		v := reflect.ValueOf(x)
		switch v.Kind() {
		case reflect.Slice:
			n += v.Len() + 1
			if v.Len() > 0 && (v.Index(0).Kind() == reflect.Slice || v.Index(0).Kind() == reflect.Map) {
				for i := 0; i < v.Len(); i++ {
					n += v.Index(i).Len()
				}
			}
		case reflect.Map:
			n += v.Len() + 1
			for _, k := range v.MapKeys() {
				if k.CanInt() && int(k.Int()) > n {
					n = int(k.Int()) + 1
				}
			}
		case reflect.Int, reflect.Int8, reflect.Int16, reflect.Int32, reflect.Int64:
			a := v.Int()
			if a < 0 {
				a = -a
			}
			if a >= 0 && a < 40 {
				n += int(a)
			}
		}
	}
	if n > 48 {
		n = 48
	}
	return n
}
`

var replayLine = regexp.MustCompile(`(?m)^\s*(?:[a-z_0-9]+\.go:\d+: )?REPLAY-VIOLATION (.*)$`)

// replayFunction builds and runs the replay test for one function; memoised per function.
func replayFunction(prog *Program, o *checkOpts, fi *FuncInfo, hintInts, hintLens []int64) *replayOutcome {
	return replayFunctionInst(prog, o, fi, hintInts, hintLens, "")
}

var basicByName = map[string]types.Type{"int": types.Typ[types.Int], "int8": types.Typ[types.Int8], "int16": types.Typ[types.Int16], "int32": types.Typ[types.Int32], "int64": types.Typ[types.Int64],
	"uint": types.Typ[types.Uint], "uint8": types.Typ[types.Uint8], "uint16": types.Typ[types.Uint16], "uint32": types.Typ[types.Uint32], "uint64": types.Typ[types.Uint64], "float64": types.Typ[types.Float64], "string": types.Typ[types.String]}

// inst: instantiation the failed obligation was generated for, as in "<T=int16>" (may be empty)
func replayFunctionInst(prog *Program, o *checkOpts, fi *FuncInfo, hintInts, hintLens []int64, inst string) *replayOutcome {
	key := fi.FullName() + inst
	if r, ok := replayMemo[key]; ok {
		return r
	}
	out := &replayOutcome{}
	replayMemo[key] = out
	c := fi.Spec
	if c == nil || fi.Decl.Recv != nil {
		out.reason = "methods are not replayed (a receiver state would have to be constructed)"
		return out
	}
	g := &rgen{prog: prog, fi: fi, tsub: map[*types.TypeParam]types.Type{}, imports: map[string]bool{}, pname: map[string]string{}, oname: map[string]string{}}
	g.qual = func(p *types.Package) string {
		if p == fi.Pkg.P.Types {
			return ""
		}
		g.imports[p.Path()] = true
		return p.Name()
	}
	sig := fi.Obj.Type().(*types.Signature)
	for _, m := range regexp.MustCompile(`<([A-Za-z0-9_]+)=([a-z0-9]+)>`).FindAllStringSubmatch(inst, -1) {
		for i := 0; i < sig.TypeParams().Len(); i++ {
			if bt, ok := basicByName[m[2]]; ok && sig.TypeParams().At(i).Obj().Name() == m[1] {
				g.tsub[sig.TypeParams().At(i)] = bt
			}
		}
	}
	for i := 0; i < sig.TypeParams().Len(); i++ {
		g.instantiate(sig.TypeParams().At(i), sig.TypeParams(), 0)
	}
	for i := 0; i < sig.Params().Len(); i++ {
		p := sig.Params().At(i)
		t := substType(p.Type(), g.tsub)
		if !g.supported(t, 0) {
			out.reason = fmt.Sprintf("parameter %s of type %s is outside the replayable types", p.Name(), g.tstr(t))
			return out
		}
		gn := fmt.Sprintf("p%d", i)
		g.params = append(g.params, gn)
		g.ptypes = append(g.ptypes, t)
		if p.Name() != "" && p.Name() != "_" {
			g.pname[p.Name()] = gn
			g.oname[p.Name()] = "old_" + gn
		}
	}
	for i := 0; i < sig.Results().Len(); i++ {
		r := sig.Results().At(i)
		t := substType(r.Type(), g.tsub)
		if !g.supported(t, 0) {
			out.reason = fmt.Sprintf("result of type %s is outside the replayable types", g.tstr(t))
			return out
		}
		gn := fmt.Sprintf("r%d", i)
		g.results = append(g.results, gn)
		g.rtypes = append(g.rtypes, t)
		g.pname[fmt.Sprintf("result%d", i)] = gn
		if sig.Results().Len() == 1 {
			g.pname["result"] = gn
		}
		if r.Name() != "" && r.Name() != "_" {
			g.pname[r.Name()] = gn
		}
	}
	if len(g.imports) > 0 {
		out.reason = "types of other packages in the signature"
		return out
	}
	env := &trEnv{bound: map[string]string{}}
	// requires: every conjunct must be expressible, otherwise admissible inputs cannot be told apart
	var reqs []string
	for _, r := range c.Requires {
		for _, cj := range specConjuncts(r.E) {
			code, ok := g.tr(cj, env)
			if !ok {
				// preconditions about the ghost protocol state or orders cannot be checked on concrete values
				out.reason = "precondition not expressible on concrete values: " + specString(cj)
				return out
			}
			reqs = append(reqs, code)
		}
	}
	type chk struct{ code, src string }
	var pconds []chk
	for _, p := range c.Panics {
		code, ok := g.tr(p.E, env)
		if !ok {
			out.reason = "`panics when` condition not expressible: " + p.Src
			return out
		}
		pconds = append(pconds, chk{code, p.Src})
	}
	var ens []chk
	for _, e := range c.Ensures {
		if e.Trusted || (len(e.Props) > 0 && !hasProp(e.Props, o.prop)) {
			continue
		}
		penv := &trEnv{pos: true, bound: map[string]string{}}
		for _, cj := range specConjuncts(e.E) {
			if code, ok := g.tr(cj, penv); ok {
				ens = append(ens, chk{code, specString(cj)})
			}
		}
	}
	// candidates
	var candLists [][]string
	total := 1
	for i, t := range g.ptypes {
		cs := g.cands(t, hintInts, hintLens)
		if len(cs) == 0 {
			out.reason = "no candidate values for " + g.tstr(t)
			return out
		}
		candLists = append(candLists, cs)
		total *= len(cs)
		_ = i
	}
	for total > 40000 {
		// shrink the longest list
		li := 0
		for i := range candLists {
			if len(candLists[i]) > len(candLists[li]) {
				li = i
			}
		}
		total /= len(candLists[li])
		candLists[li] = candLists[li][:len(candLists[li])*2/3]
		total *= len(candLists[li])
	}
	out.nCands = total
	var b strings.Builder
	fmt.Fprintf(&b, "// Code generated by gvc replay for %s; DO NOT EDIT.\n// Calls the real function on candidate inputs and evaluates its contract (%s) on the outcome.\npackage %s\n\nimport (\n\t\"fmt\"\n\t\"reflect\"\n\t\"testing\"\n)\n\nvar _ = fmt.Sprint\n%s\n", fi.FullName(), filepath.Base(c.File), fi.Pkg.P.Types.Name(), replayHelpers)
	fmt.Fprintf(&b, "func TestVerifReplay(t *testing.T) {\n")
	for i, cs := range candLists {
		fmt.Fprintf(&b, "\tc%d := []func() %s{\n", i, g.tstr(g.ptypes[i]))
		for _, cnd := range cs {
			fmt.Fprintf(&b, "\t\tfunc() %s { return %s },\n", g.tstr(g.ptypes[i]), cnd)
		}
		fmt.Fprintf(&b, "\t}\n")
	}
	fmt.Fprintf(&b, "\trun := func(%s) bool {\n", func() string {
		var ps []string
		for i := range g.params {
			ps = append(ps, fmt.Sprintf("i%d int", i))
		}
		return strings.Join(ps, ", ")
	}())
	var sizeArgs []string
	for i, p := range g.params {
		fmt.Fprintf(&b, "\t\t%s := c%d[i%d]()\n\t\told_%s := %s\n\t\t_ = old_%s\n", p, i, i, p, g.copyExpr(g.ptypes[i], p, 0), p)
		if _, isFn := g.ptypes[i].Underlying().(*types.Signature); !isFn {
			sizeArgs = append(sizeArgs, p)
		}
	}
	fmt.Fprintf(&b, "\t\tvW := vSize(%s)\n\t\t_ = vW\n", strings.Join(sizeArgs, ", "))
	fmt.Fprintf(&b, "\t\tdesc := func() string { return fmt.Sprintf(\"%s\", %s) }\n", func() string {
		var fs []string
		for i := range g.params {
			n := sig.Params().At(i).Name()
			if _, isFn := g.ptypes[i].Underlying().(*types.Signature); isFn {
				fs = append(fs, n+"=#%d")
			} else {
				fs = append(fs, n+"=%#v")
			}
		}
		return strings.Join(fs, " ")
	}(), func() string {
		var as []string
		for i := range g.params {
			if _, isFn := g.ptypes[i].Underlying().(*types.Signature); isFn {
				as = append(as, fmt.Sprintf("i%d", i))
			} else {
				as = append(as, "old_"+g.params[i])
			}
		}
		return strings.Join(as, ", ")
	}())
	for _, r := range reqs {
		fmt.Fprintf(&b, "\t\tif v, ok := vTry(func() bool { return %s }); !ok || !v {\n\t\t\treturn false\n\t\t}\n", r)
	}
	for i, r := range g.results {
		fmt.Fprintf(&b, "\t\tvar %s %s\n\t\t_ = %s\n", r, g.tstr(g.rtypes[i]), r)
	}
	// expected panic, evaluated in the entry state
	fmt.Fprintf(&b, "\t\twantPanic, knowPanic := false, true\n")
	for _, p := range pconds {
		fmt.Fprintf(&b, "\t\tif v, ok := vTry(func() bool { return %s }); !ok {\n\t\t\tknowPanic = false\n\t\t} else if v {\n\t\t\twantPanic = true\n\t\t}\n", p.code)
	}
	var targs []string
	for i := 0; i < sig.TypeParams().Len(); i++ {
		targs = append(targs, g.tstr(g.tsub[sig.TypeParams().At(i)]))
	}
	call := fi.Obj.Name()
	if len(targs) > 0 {
		call += "[" + strings.Join(targs, ", ") + "]"
	}
	var cargs []string
	for i, p := range g.params {
		if sig.Variadic() && i == len(g.params)-1 {
			cargs = append(cargs, p+"...")
		} else {
			cargs = append(cargs, p)
		}
	}
	lhs := ""
	if len(g.results) > 0 {
		lhs = strings.Join(g.results, ", ") + " = "
	}
	fmt.Fprintf(&b, "\t\tpanicked := false\n\t\tvar pval any\n\t\tfunc() {\n\t\t\tdefer func() {\n\t\t\t\tif r := recover(); r != nil {\n\t\t\t\t\tpanicked, pval = true, r\n\t\t\t\t}\n\t\t\t}()\n\t\t\t%s%s(%s)\n\t\t}()\n", lhs, call, strings.Join(cargs, ", "))
	fmt.Fprintf(&b, "\t\tif knowPanic && panicked && !wantPanic {\n\t\t\tt.Logf(\"REPLAY-VIOLATION clause=%%q input={%%s} outcome=panic: %%v\", \"no panic outside the contract's `panics when` conditions\", desc(), pval)\n\t\t\treturn true\n\t\t}\n")
	fmt.Fprintf(&b, "\t\tif knowPanic && !panicked && wantPanic {\n\t\t\tt.Logf(\"REPLAY-VIOLATION clause=%%q input={%%s} outcome=returned normally\", \"panics when the contract says so\", desc())\n\t\t\treturn true\n\t\t}\n\t\tif panicked {\n\t\t\treturn false\n\t\t}\n")
	resDesc := `""`
	if len(g.results) > 0 {
		var fs, as []string
		for _, r := range g.results {
			fs = append(fs, "%#v")
			as = append(as, r)
		}
		resDesc = fmt.Sprintf("fmt.Sprintf(%q, %s)", strings.Join(fs, ", "), strings.Join(as, ", "))
	}
	for _, e := range ens {
		fmt.Fprintf(&b, "\t\tif v, ok := vTry(func() bool { return %s }); ok && !v {\n\t\t\tt.Logf(\"REPLAY-VIOLATION clause=%%q input={%%s} outcome=returned %%s\", %q, desc(), %s)\n\t\t\treturn true\n\t\t}\n", e.code, e.src, resDesc)
	}
	fmt.Fprintf(&b, "\t\treturn false\n\t}\n")
	// loops
	ind := "\t"
	for i := range g.params {
		fmt.Fprintf(&b, "%sfor i%d := range c%d {\n", ind, i, i)
		ind += "\t"
	}
	var is []string
	for i := range g.params {
		is = append(is, fmt.Sprintf("i%d", i))
	}
	if len(g.params) == 0 {
		fmt.Fprintf(&b, "\tif run() {\n\t\tt.FailNow()\n\t}\n")
	} else {
		fmt.Fprintf(&b, "%sif run(%s) {\n%s\tt.FailNow()\n%s}\n", ind, strings.Join(is, ", "), ind, ind)
	}
	for i := len(g.params) - 1; i >= 0; i-- {
		ind = ind[:len(ind)-1]
		fmt.Fprintf(&b, "%s}\n", ind)
	}
	fmt.Fprintf(&b, "}\n")
	if len(ens) == 0 && len(pconds) == 0 && len(c.Panics) == 0 {
		// still useful: unexpected panics
	}
	// write, run
	rdir := filepath.Join(o.outDir, "replay", o.prop)
	os.MkdirAll(rdir, 0o755)
	tfile := filepath.Join(rdir, sanitizeFile(fi.FullName()+inst)+".replay_test.go")
	os.WriteFile(tfile, []byte(b.String()), 0o644)
	out.file = tfile
	out.tried = true
	rel, err := filepath.Rel(prog.RepoDir, filepath.Dir(prog.Fset.Position(fi.Decl.Pos()).Filename))
	if err != nil {
		out.reason = err.Error()
		return out
	}
	tmp, err := os.MkdirTemp("", "gvc-replay-")
	if err != nil {
		out.reason = err.Error()
		return out
	}
	defer os.RemoveAll(tmp)
	ov := map[string]map[string]string{"Replace": {filepath.Join(o.repo, rel, "zz_verif_replay_test.go"): tfile}}
	ovData, _ := json.Marshal(ov)
	ovFile := filepath.Join(tmp, "overlay.json")
	os.WriteFile(ovFile, ovData, 0o644)
	start := time.Now()
	cmd := exec.Command("go", "test", "-overlay", ovFile, "-vet=off", "-count=1", "-timeout", "90s", "-run", "^TestVerifReplay$", "./"+rel+"/")
	cmd.Dir = o.repo
	cmd.Env = append(os.Environ(), "GOFLAGS=-mod=mod", "GOPROXY=off", "GOSUMDB=off", "GOTOOLCHAIN=local")
	bs, _ := cmd.CombinedOutput()
	text := string(bs)
	_ = start
	if m := replayLine.FindStringSubmatch(text); m != nil {
		out.found = true
		out.output = m[1]
		if i := strings.Index(m[1], " input="); i >= 0 {
			out.clause = strings.TrimPrefix(m[1][:i], "clause=")
			out.input = m[1][i+1:]
		}
		return out
	}
	if strings.Contains(text, "[build failed]") || strings.Contains(text, "cannot use") || strings.Contains(text, "undefined:") {
		out.reason = "generated replay test does not compile: " + truncate(text, 600)
		return out
	}
	out.reason = fmt.Sprintf("no candidate input (of %d) violates an expressible clause of the contract", total)
	return out
}

// modelHints: integer values of the function's integer parameters and lengths of its slice
// parameters in the solver's countermodel of a refuted obligation.
var modelSeqs [][]int64 // element values of the slice parameters in the last countermodel (set by modelHints)

func modelHints(ob *Obligation) (ints, lens []int64, text string) {
	modelSeqs = nil
	if ob.Status != "failed" || ob.SMTFile == "" {
		return nil, nil, ""
	}
	data, err := os.ReadFile(ob.SMTFile)
	if err != nil {
		return nil, nil, ""
	}
	script := string(data)
	var terms []string
	kinds := map[string]string{}
	for _, m := range regexp.MustCompile(`\(declare-const (g_arg_[A-Za-z0-9_]+![0-9]+) (Int|Slice)\)`).FindAllStringSubmatch(script, -1) {
		if m[2] == "Int" {
			terms = append(terms, m[1])
			kinds[m[1]] = "int"
		} else {
			t := "(s_len " + m[1] + ")"
			terms = append(terms, t)
			kinds[t] = "len"
		}
	}
	if len(terms) == 0 {
		return nil, nil, ""
	}
	script = strings.Replace(script, "(set-logic ALL)", "(set-option :produce-models true)\n(set-logic ALL)", 1)
	script = strings.TrimSuffix(strings.TrimSpace(script), "(check-sat)") + "(check-sat)\n(get-value (" + strings.Join(terms, " ") + "))\n"
	tmp, err := os.CreateTemp("", "gvc-model-*.smt2")
	if err != nil {
		return nil, nil, ""
	}
	defer os.Remove(tmp.Name())
	tmp.WriteString(script)
	tmp.Close()
	outb, _ := exec.Command("z3-new", "-smt2", "-T:10", tmp.Name()).CombinedOutput()
	res := string(outb)
	if !strings.HasPrefix(strings.TrimSpace(res), "sat") {
		return nil, nil, ""
	}
	var parts []string
	for _, m := range regexp.MustCompile(`\((g_arg_[A-Za-z0-9_]+![0-9]+|\(s_len g_arg_[A-Za-z0-9_]+![0-9]+\)) (\(- [0-9]+\)|[0-9]+)\)`).FindAllStringSubmatch(res, -1) {
		vs := strings.TrimSuffix(strings.TrimPrefix(m[2], "(- "), ")")
		var v int64
		fmt.Sscan(vs, &v)
		if strings.HasPrefix(m[2], "(-") {
			v = -v
		}
		if kinds[m[1]] == "len" {
			lens = append(lens, v)
		} else {
			ints = append(ints, v)
		}
		parts = append(parts, m[1]+" = "+fmt.Sprint(v))
	}
	// second query: the elements of the slice parameters (integer elements as they are, elements of
	// an uninterpreted sort - a type parameter - numbered by first appearance)
	var memArrs []string
	for _, m := range regexp.MustCompile(`\(declare-const (\|g_H0_mem:[^|]+\||g_H0_mem:[A-Za-z0-9_]+) \(Array ArrId \(Array Int ([A-Za-z0-9_]+)\)\)\)`).FindAllStringSubmatch(string(data), -1) {
		if m[2] == "Int" || strings.HasPrefix(m[2], "g_S_") {
			memArrs = append(memArrs, m[1])
		}
	}
	lenOf := map[string]int64{}
	for _, m := range regexp.MustCompile(`\(\(s_len (g_arg_[A-Za-z0-9_]+![0-9]+)\) ([0-9]+)\)`).FindAllStringSubmatch(res, -1) {
		var v int64
		fmt.Sscan(m[2], &v)
		lenOf[m[1]] = v
	}
	var elemTerms []string
	type et struct {
		p, mem string
		i      int64
	}
	var ets []et
	for pname, n := range lenOf {
		if n <= 0 || n > 8 {
			continue
		}
		for _, mem := range memArrs {
			for i := int64(0); i < n; i++ {
				elemTerms = append(elemTerms, fmt.Sprintf("(select (select %s (s_arr %s)) (+ (s_off %s) %d))", mem, pname, pname, i))
				ets = append(ets, et{pname, mem, i})
			}
		}
	}
	if len(elemTerms) > 0 {
		script2 := strings.TrimSuffix(strings.TrimSpace(script), "(get-value ("+strings.Join(terms, " ")+"))")
		script2 += "\n(get-value (" + strings.Join(elemTerms, " ") + "))\n"
		tmp2, err := os.CreateTemp("", "gvc-model2-*.smt2")
		if err == nil {
			tmp2.WriteString(script2)
			tmp2.Close()
			out2, _ := exec.Command("z3-new", "-smt2", "-T:10", tmp2.Name()).CombinedOutput()
			os.Remove(tmp2.Name())
			r2 := string(out2)
			if i := strings.Index(r2, "(("); strings.HasPrefix(strings.TrimSpace(r2), "sat") && i >= 0 {
				// values in order of the terms: the last token before each closing "))" of a pair
				vals := regexp.MustCompile(`\)\) (\(- [0-9]+\)|[0-9]+|[A-Za-z_][A-Za-z0-9_!]*)\)`).FindAllStringSubmatch(r2[i:], -1)
				if len(vals) == len(ets) {
					seqs := map[string][]int64{}
					names := map[string]int64{}
					for k, e := range ets {
						key := e.p + "|" + e.mem
						vs := vals[k][1]
						var v int64
						if strings.HasPrefix(vs, "(-") {
							fmt.Sscan(strings.TrimSuffix(strings.TrimPrefix(vs, "(- "), ")"), &v)
							v = -v
						} else if _, err := fmt.Sscan(vs, &v); err != nil {
							if id, ok := names[vs]; ok {
								v = id
							} else {
								v = int64(len(names))
								names[vs] = v
							}
						}
						if v > 1<<31 || v < -(1<<31) {
							v = v % 7
						}
						seqs[key] = append(seqs[key], v)
					}
					var keys []string
					for k := range seqs {
						keys = append(keys, k)
					}
					sort.Strings(keys)
					for _, k := range keys {
						modelSeqs = append(modelSeqs, seqs[k])
						parts = append(parts, fmt.Sprintf("elems(%s) = %v", strings.SplitN(k, "|", 2)[0], seqs[k]))
					}
				}
			}
		}
	}
	sort.Strings(parts)
	return ints, lens, strings.Join(parts, ", ")
}
