package main

// spec.go: the contract expression language (lexer, Pratt parser, AST).

import (
	"fmt"
	"strings"
)

type SExpr interface{}

type (
	SIdent  struct{ Name string }
	SInt    struct{ V string }
	SBoolL  struct{ V bool }
	SNil    struct{}
	SStr    struct{ V string }
	SBin    struct {
		Op   string
		L, R SExpr
	}
	SUn struct {
		Op string
		X  SExpr
	}
	SCond struct{ C, A, B SExpr }
	SCall struct {
		Fn   SExpr
		Args []SExpr
	}
	SSel struct {
		X    SExpr
		Name string
	}
	SIndex struct{ X, I SExpr }
	SSliceE struct{ X, Lo, Hi SExpr }
	SOld   struct{ X SExpr }
	SQVar  struct{ Name, Type string }
	SQuant struct {
		Forall   bool
		Vars     []SQVar
		Triggers [][]SExpr
		Body     SExpr
	}
	SLambda struct {
		Vars []SQVar
		Body SExpr
	}
	SLet struct {
		Name string
		Val  SExpr
		Body SExpr
	}
	STypeAssert struct {
		X    SExpr
		Type string
	}
	STupleSel struct {
		X SExpr
		I string
	}
)

type tok struct {
	k string // "id", "int", "str", "op", "eof"
	s string
}

type sparser struct {
	toks []tok
	pos  int
	src  string
}

func lexSpec(src string) ([]tok, error) {
	var out []tok
	i := 0
	for i < len(src) {
		c := src[i]
		switch {
		case c == ' ' || c == '\t' || c == '\n' || c == '\r':
			i++
		case c >= '0' && c <= '9':
			j := i
			for j < len(src) && (src[j] >= '0' && src[j] <= '9' || src[j] == '_') {
				j++
			}
			out = append(out, tok{"int", strings.ReplaceAll(src[i:j], "_", "")})
			i = j
		case c == '_' || c >= 'a' && c <= 'z' || c >= 'A' && c <= 'Z':
			j := i
			for j < len(src) && (src[j] == '_' || src[j] >= 'a' && src[j] <= 'z' || src[j] >= 'A' && src[j] <= 'Z' || src[j] >= '0' && src[j] <= '9') {
				j++
			}
			out = append(out, tok{"id", src[i:j]})
			i = j
		case c == '"':
			j := i + 1
			for j < len(src) && src[j] != '"' {
				j++
			}
			if j >= len(src) {
				return nil, fmt.Errorf("unterminated string in %q", src)
			}
			out = append(out, tok{"str", src[i+1 : j]})
			i = j + 1
		default:
			ops := []string{"<==>", "==>", "<<", ">>", "&&", "||", "==", "!=", "<=", ">=", "::", ":=", "(", ")", "[", "]", "{", "}", ",", ".", ":", "?", "!", "<", ">", "+", "-", "*", "/", "%", "=", "\\", "&", "|"}
			found := false
			for _, o := range ops {
				if strings.HasPrefix(src[i:], o) {
					out = append(out, tok{"op", o})
					i += len(o)
					found = true
					break
				}
			}
			if !found {
				return nil, fmt.Errorf("bad character %q in %q", c, src)
			}
		}
	}
	out = append(out, tok{"eof", ""})
	return out, nil
}

func parseSpec(src string) (e SExpr, err error) {
	toks, err := lexSpec(src)
	if err != nil {
		return nil, err
	}
	p := &sparser{toks: toks, src: src}
	defer func() {
		if r := recover(); r != nil {
			if s, ok := r.(specErr); ok {
				err = fmt.Errorf("%s in spec %q", string(s), src)
				return
			}
			panic(r)
		}
	}()
	e = p.expr(0)
	if p.peek().k != "eof" {
		p.fail("unexpected token " + p.peek().s)
	}
	return e, nil
}

type specErr string

func (p *sparser) fail(m string)  { panic(specErr(m)) }
func (p *sparser) peek() tok      { return p.toks[p.pos] }
func (p *sparser) next() tok      { t := p.toks[p.pos]; p.pos++; return t }
func (p *sparser) isOp(s string) bool {
	t := p.peek()
	return t.k == "op" && t.s == s
}
func (p *sparser) isID(s string) bool {
	t := p.peek()
	return t.k == "id" && t.s == s
}
func (p *sparser) expect(s string) {
	if !p.isOp(s) {
		p.fail(fmt.Sprintf("expected %q, got %q", s, p.peek().s))
	}
	p.next()
}

var binPrec = map[string]int{
	"<==>": 1, "==>": 2, "||": 4, "&&": 5,
	"==": 6, "!=": 6, "<": 6, "<=": 6, ">": 6, ">=": 6,
	"+": 7, "-": 7, "*": 8, "/": 8, "%": 8, "<<": 8,
}

// expr parses with minimum precedence. The ternary ?: has precedence 3 (binds looser than ||,
// tighter than ==>).
func (p *sparser) expr(min int) SExpr {
	lhs := p.unary()
	for {
		t := p.peek()
		if t.k != "op" {
			break
		}
		if t.s == "?" && min <= 3 {
			p.next()
			a := p.expr(3)
			p.expect(":")
			b := p.expr(3)
			lhs = &SCond{lhs, a, b}
			continue
		}
		pr, ok := binPrec[t.s]
		if !ok || pr < min {
			break
		}
		p.next()
		var rhs SExpr
		if t.s == "==>" {
			rhs = p.expr(pr) // right assoc
		} else {
			rhs = p.expr(pr + 1)
		}
		lhs = &SBin{t.s, lhs, rhs}
	}
	return lhs
}

func (p *sparser) unary() SExpr {
	if p.isOp("!") {
		p.next()
		return &SUn{"!", p.unary()}
	}
	if p.isOp("-") {
		p.next()
		return &SUn{"-", p.unary()}
	}
	if p.isOp("&") {
		p.next()
		return &SUn{"&", p.unary()}
	}
	return p.postfix(p.primary())
}

func (p *sparser) typeStr(stops ...string) string {
	// collect raw tokens up to a stop token at bracket depth 0
	depth := 0
	var sb strings.Builder
	for {
		t := p.peek()
		if t.k == "eof" {
			break
		}
		if depth == 0 && t.k == "op" {
			stop := false
			for _, s := range stops {
				if t.s == s {
					stop = true
				}
			}
			if stop {
				break
			}
		}
		if t.k == "op" && (t.s == "[" || t.s == "(") {
			depth++
		}
		if t.k == "op" && (t.s == "]" || t.s == ")") {
			depth--
		}
		if t.k == "id" && sb.Len() > 0 {
			last := sb.String()[sb.Len()-1]
			if last != '*' && last != '[' && last != '.' && last != ']' && last != '(' {
				sb.WriteByte(' ')
			}
		}
		sb.WriteString(t.s)
		p.next()
	}
	return sb.String()
}

func (p *sparser) qvars() []SQVar {
	var vs []SQVar
	for {
		var names []string
		for {
			t := p.next()
			if t.k != "id" {
				p.fail("expected bound variable name")
			}
			names = append(names, t.s)
			// `i, j int`: a comma followed by ident followed by a type
			if p.isOp(",") && p.toks[p.pos+1].k == "id" && (p.toks[p.pos+2].k == "op" && p.toks[p.pos+2].s == ",") {
				p.next()
				continue
			}
			if p.isOp(",") && p.toks[p.pos+1].k == "id" && p.toks[p.pos+2].k != "op" {
				p.next()
				continue
			}
			if p.isOp(",") && p.toks[p.pos+1].k == "id" && p.toks[p.pos+2].k == "op" && (p.toks[p.pos+2].s == "*" || p.toks[p.pos+2].s == "[") {
				p.next()
				continue
			}
			break
		}
		ty := p.typeStr(",", "{", "::")
		if ty == "" {
			p.fail("bound variable needs a type")
		}
		for _, n := range names {
			vs = append(vs, SQVar{n, ty})
		}
		if p.isOp(",") {
			p.next()
			continue
		}
		break
	}
	return vs
}

func (p *sparser) primary() SExpr {
	t := p.next()
	switch t.k {
	case "int":
		return &SInt{t.s}
	case "str":
		return &SStr{t.s}
	case "id":
		switch t.s {
		case "true":
			return &SBoolL{true}
		case "false":
			return &SBoolL{false}
		case "nil":
			return &SNil{}
		case "old":
			if !p.isOp("(") {
				return &SIdent{t.s} // a parameter that happens to be called old (xsync.Map.CompareAndSwap)
			}
			p.expect("(")
			e := p.expr(0)
			p.expect(")")
			return &SOld{e}
		case "forall", "exists":
			vs := p.qvars()
			var trigs [][]SExpr
			for p.isOp("{") {
				p.next()
				var tr []SExpr
				for {
					tr = append(tr, p.expr(0))
					if p.isOp(",") {
						p.next()
						continue
					}
					break
				}
				p.expect("}")
				trigs = append(trigs, tr)
			}
			p.expect("::")
			body := p.expr(0)
			return &SQuant{t.s == "forall", vs, trigs, body}
		case "lambda":
			vs := p.qvars()
			p.expect("::")
			body := p.expr(0)
			return &SLambda{vs, body}
		case "let":
			n := p.next()
			p.expect("=")
			v := p.expr(0)
			if !p.isID("in") {
				p.fail("expected 'in'")
			}
			p.next()
			b := p.expr(0)
			return &SLet{n.s, v, b}
		}
		return &SIdent{t.s}
	case "op":
		if t.s == "(" {
			e := p.expr(0)
			p.expect(")")
			return e
		}
	}
	p.fail("unexpected token " + t.s)
	return nil
}

func (p *sparser) postfix(e SExpr) SExpr {
	for {
		switch {
		case p.isOp("."):
			p.next()
			if p.isOp("(") { // type assertion x.(T)
				p.next()
				ty := p.typeStr(")")
				p.expect(")")
				e = &STypeAssert{e, ty}
				continue
			}
			t := p.next()
			if t.k == "int" {
				e = &STupleSel{e, t.s}
				continue
			}
			if t.k != "id" {
				p.fail("expected field name after '.'")
			}
			e = &SSel{e, t.s}
		case p.isOp("("):
			p.next()
			var args []SExpr
			for !p.isOp(")") {
				args = append(args, p.expr(0))
				if p.isOp(",") {
					p.next()
				}
			}
			p.expect(")")
			e = &SCall{e, args}
		case p.isOp("["):
			p.next()
			var lo, hi SExpr
			if !p.isOp(":") {
				lo = p.expr(0)
			}
			if p.isOp(":") {
				p.next()
				if !p.isOp("]") {
					hi = p.expr(0)
				}
				p.expect("]")
				e = &SSliceE{e, lo, hi}
				continue
			}
			p.expect("]")
			e = &SIndex{e, lo}
		default:
			return e
		}
	}
}

func specString(e SExpr) string {
	switch x := e.(type) {
	case *SIdent:
		return x.Name
	case *SInt:
		return x.V
	case *SBoolL:
		return fmt.Sprint(x.V)
	case *SNil:
		return "nil"
	case *SStr:
		return fmt.Sprintf("%q", x.V)
	case *SBin:
		return "(" + specString(x.L) + " " + x.Op + " " + specString(x.R) + ")"
	case *SUn:
		return x.Op + specString(x.X)
	case *SCond:
		return "(" + specString(x.C) + " ? " + specString(x.A) + " : " + specString(x.B) + ")"
	case *SCall:
		var as []string
		for _, a := range x.Args {
			as = append(as, specString(a))
		}
		return specString(x.Fn) + "(" + strings.Join(as, ", ") + ")"
	case *SSel:
		return specString(x.X) + "." + x.Name
	case *SIndex:
		return specString(x.X) + "[" + specString(x.I) + "]"
	case *SSliceE:
		s := specString(x.X) + "["
		if x.Lo != nil {
			s += specString(x.Lo)
		}
		s += ":"
		if x.Hi != nil {
			s += specString(x.Hi)
		}
		return s + "]"
	case *SOld:
		return "old(" + specString(x.X) + ")"
	case *SQuant:
		k := "exists"
		if x.Forall {
			k = "forall"
		}
		var vs []string
		for _, v := range x.Vars {
			vs = append(vs, v.Name+" "+v.Type)
		}
		return "(" + k + " " + strings.Join(vs, ", ") + " :: " + specString(x.Body) + ")"
	case *SLambda:
		var vs []string
		for _, v := range x.Vars {
			vs = append(vs, v.Name+" "+v.Type)
		}
		return "(lambda " + strings.Join(vs, ", ") + " :: " + specString(x.Body) + ")"
	case *SLet:
		return "(let " + x.Name + " = " + specString(x.Val) + " in " + specString(x.Body) + ")"
	case *STypeAssert:
		return specString(x.X) + ".(" + x.Type + ")"
	case *STupleSel:
		return specString(x.X) + "." + x.I
	}
	return fmt.Sprintf("?%T", e)
}
