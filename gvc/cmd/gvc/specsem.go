package main

// specsem.go: evaluation of contract expressions in a symbolic state; frames; ghost updates.

import (
	"regexp"
	"fmt"
	"os"
	"go/ast"
	"go/parser"
	"go/token"
	"go/types"
	"strconv"
	"strings"
)

type SpecEnv struct {
	ex    *Exec
	st    *State
	old   *State
	bind  map[string]Val
	pkg   *Package
	fi    *FuncInfo
	tsub  map[*types.TypeParam]types.Type
	frame *Frame // Go locals visible by name (may be nil)
	qn    *int
	depth int
	typeScopePkg   *Package
	typeScopePos   token.Pos
	typeScopeNamed *types.Named
	extSig         *types.Signature
	typeAlias      map[string]types.Type
	topOld         bool // old(e): parameters denote their entry values
	iterSnap       map[int]*State // iter(K, e): state at the start of the current iteration of loop K
	pol            int  // +1: positive position of a goal (universal quantifiers are skolemised), -1 negative, 0 off
}

func (ex *Exec) specEnvFor(st *State, fi *FuncInfo) *SpecEnv {
	n := 0
	env := &SpecEnv{ex: ex, st: st, old: ex.entry, bind: map[string]Val{}, fi: fi, frame: st.frame, qn: &n}
	if fi != nil {
		env.pkg = fi.Pkg
	}
	if st.frame != nil {
		env.tsub = st.frame.tsub
		env.iterSnap = st.frame.iterSnap
	}
	if st.frame != nil && st.frame.fi == ex.top && st.frame.closure == nil {
		env.topOld = true
	}
	if st.frame != nil {
		for k, v := range st.frame.ghost {
			env.bind[k] = v
		}
	}
	return env
}

func (env *SpecEnv) with(st *State) *SpecEnv {
	n := *env
	n.st = st
	return &n
}

func (env *SpecEnv) child() *SpecEnv {
	n := *env
	n.bind = make(map[string]Val, len(env.bind)+2)
	for k, v := range env.bind {
		n.bind[k] = v
	}
	return &n
}

type specFail struct{ msg string }

func (env *SpecEnv) fail(format string, a ...interface{}) {
	panic(specFail{fmt.Sprintf(format, a...)})
}

// goal evaluates a formula that is about to be proved: universal quantifiers in positive
// position are replaced by fresh constants (equivalent, and it exposes the index expressions of
// the goal to the index-witness patterns of the hypotheses).
func (env *SpecEnv) goal(e SExpr) string {
	c := *env
	c.pol = 1
	env.ex.inGoal++
	defer func() { env.ex.inGoal-- }()
	return c.boolTerm(e)
}

func (env *SpecEnv) flip() *SpecEnv {
	c := *env
	c.pol = -env.pol
	return &c
}

func (env *SpecEnv) nopol() *SpecEnv {
	if env.pol == 0 {
		return env
	}
	c := *env
	c.pol = 0
	return &c
}

func (env *SpecEnv) boolTerm(e SExpr) string {
	v := env.eval(e)
	if v.S.Kind != KBool {
		env.fail("expected a boolean: %s", specString(e))
	}
	return v.T
}

func (env *SpecEnv) eval(e SExpr) Val {
	ex := env.ex
	switch x := e.(type) {
	case *SInt:
		return Val{T: x.V, S: sInt, Go: types.Typ[types.Int]}
	case *SBoolL:
		return Val{T: fmt.Sprint(x.V), S: sBool, Go: types.Typ[types.Bool]}
	case *SNil:
		return Val{T: "nil", S: sRef, Go: types.Typ[types.UntypedNil]}
	case *SStr:
		s := ex.w.unSort("string")
		n := sym("str_" + fmt.Sprintf("%x", x.V))
		ex.w.declConst(n, s)
		ex.w.noteDistinct("string", n)
		return Val{T: n, S: s, Go: types.Typ[types.String]}
	case *SIdent:
		return env.ident(x.Name)
	case *SUn:
		if x.Op == "&" {
			// address of a struct-typed field of a heap object
			sel, ok := x.X.(*SSel)
			if !ok {
				env.fail("& needs x.field")
			}
			base := env.nopol().eval(sel.X)
			n, stT, isPtr := structOf(base.Go)
			if !isPtr || stT == nil {
				env.fail("&x.f: x must be a pointer to a struct")
			}
			for i := 0; i < stT.NumFields(); i++ {
				if stT.Field(i).Name() == sel.Name {
					ft := ex.fieldType(base.Go, stT.Field(i))
					_ = n
					return Val{T: ex.fieldAddr(base.T, base.Go, sel.Name), S: sRef, Go: types.NewPointer(ft)}
				}
			}
			env.fail("no field %s", sel.Name)
		}
		if x.Op == "!" {
			v := env.flip().eval(x.X)
			return Val{T: sNot(v.T), S: sBool, Go: v.Go}
		}
		v := env.nopol().eval(x.X)
		return Val{T: "(- " + v.T + ")", S: sInt, Go: v.Go}
	case *SBin:
		return env.bin(x)
	case *SCond:
		c := env.nopol().boolTerm(x.C)
		a, b := env.eval(x.A), env.eval(x.B)
		r := a
		if a.Go == nil || isUntypedNil(a.Go) {
			r = b
		}
		r.T = sIte(c, a.T, b.T)
		return r
	case *SOld:
		if env.old == nil {
			env.fail("old() not available here")
		}
		n := env.with(env.old)
		if env.topOld || (env.frame != nil && env.frame.fi != ex.top) {
			// parameters denote their entry values inside old(); quantifier-bound names stay
			n = n.child()
			for k, v := range ex.topEnvBind {
				if _, bound := env.bind[k]; !bound {
					n.bind[k] = v
				}
			}
		}
		return n.eval(x.X)
	case *SLet:
		v := env.nopol().eval(x.Val)
		c := env.child()
		c.bind[x.Name] = v
		return c.eval(x.Body)
	case *SQuant:
		return env.quant(x)
	case *SCall:
		return env.call(x)
	case *SSel:
		return env.sel(x)
	case *SIndex:
		base := env.eval(x.X)
		idx := env.eval(x.I)
		switch base.S.Kind {
		case KSeq, KSet, KMapG:
			if idx.S.Kind == KInt {
				ex.noteIx(idx.T)
			}
			return Val{T: sSel(base.T, idx.T), S: base.S.Elem, Go: base.elemGo()}
		case KSlice:
			ex.noteIx(idx.T)
			return ex.loadElemPure(env.st, base, idx.T)
		case KRef:
			// Go map: ghost view  m[k] -> value
			if mt, ok := goMapType(base.Go); ok {
				return ex.mapValPure(env.st, base, idx, mt)
			}
		}
		env.fail("cannot index %s", specString(x.X))
	case *SSliceE:
		base := env.eval(x.X)
		if base.S.Kind != KSlice {
			env.fail("cannot slice %s", specString(x.X))
		}
		lo := "0"
		if x.Lo != nil {
			lo = env.eval(x.Lo).T
		}
		hi := fmt.Sprintf("(s_len %s)", base.T)
		if x.Hi != nil {
			hi = env.eval(x.Hi).T
		}
		return Val{T: fmt.Sprintf("(mkslice (s_arr %s) (+ (s_off %s) %s) (- %s %s) (- (s_cap %s) %s))", base.T, base.T, lo, hi, lo, base.T, lo), S: base.S, Go: base.Go}
	case *STupleSel:
		call, ok := x.X.(*SCall)
		if !ok {
			env.fail("tuple projection needs a call: %s", specString(x))
		}
		f := env.nopol().eval(call.Fn)
		sig, ok := sigOf(f.Go)
		if !ok {
			env.fail("cannot call %s", specString(call.Fn))
		}
		var args []Val
		for _, a := range call.Args {
			args = append(args, env.nopol().eval(a))
		}
		rs := ex.applyPure(f, sig, args)
		var idx int
		fmt.Sscanf(x.I, "%d", &idx)
		if idx < 0 || idx >= len(rs) {
			env.fail("tuple index out of range: %s", specString(x))
		}
		return rs[idx]
	case *SLambda:
		env.fail("lambda is only allowed as the right-hand side of a ghost update")
	case *STypeAssert:
		v := env.nopol().eval(x.X)
		ty, _ := env.resolveType(x.Type)
		if ty == nil {
			env.fail("bad type in assertion: %s", x.Type)
		}
		ts := ex.w.sortOf(ty)
		if ts.Kind == KRef && v.S.Kind != KRef {
			return Val{T: ex.box(v), S: sRef, Go: ty}
		}
		return Val{T: v.T, S: ts, Go: ty}
	}
	env.fail("cannot evaluate %s", specString(e))
	return Val{}
}

func isUntypedNil(t types.Type) bool {
	b, ok := t.(*types.Basic)
	return ok && b.Kind() == types.UntypedNil
}

func (v Val) elemGo() types.Type {
	if v.S != nil && v.S.Elem != nil {
		return v.S.Elem.Go
	}
	return nil
}

func goMapType(t types.Type) (*types.Map, bool) {
	if t == nil {
		return nil, false
	}
	m, ok := types.Unalias(t).Underlying().(*types.Map)
	return m, ok
}

func (env *SpecEnv) ident(name string) Val {
	ex := env.ex
	if v, ok := env.bind[name]; ok {
		return v
	}
	if env.frame != nil {
		if obj, v, ok := env.frame.lookupName(name); ok {
			_, owner, _ := env.frame.lookupVar(obj)
			if owner != nil && owner.boxed[obj] {
				return ex.loadStructPure(env.st, v.T, v.Go)
			}
			return v
		}
	}
	// inside an inlined callee: parameters of the function under verification (entry values)
	if env.frame != nil && env.frame.fi != ex.top {
		if v, ok := ex.topEnvBind[name]; ok {
			return v
		}
	}
	// zero-argument macro
	if m := env.macro(name); m != nil && len(m.Params) == 0 {
		return env.expand(m, nil)
	}
	// package-level constant or variable
	if env.pkg != nil {
		if obj := env.pkg.P.Types.Scope().Lookup(name); obj != nil {
			switch o := obj.(type) {
			case *types.Const:
				return ex.constObj(o)
			case *types.Var:
				return ex.globalVar(env.st, o)
			}
		}
	}
	env.fail("unknown identifier %q", name)
	return Val{}
}

func (ex *Exec) constObj(o *types.Const) Val {
	tv := o.Val()
	if i, ok := constantInt(tv); ok {
		return Val{T: sIntLit(i), S: sInt, Go: o.Type()}
	}
	panic(unsupported("constant " + o.Name()))
}

func (env *SpecEnv) macro(name string) *Macro {
	if env.pkg != nil && env.pkg.Spec != nil {
		if m, ok := env.pkg.Spec.Macros[name]; ok {
			return m
		}
	}
	// macros of other packages are visible unqualified when unique
	var found *Macro
	for _, ps := range env.ex.prog.AllSpecs {
		if m, ok := ps.Macros[name]; ok {
			if found != nil && found != m {
				return nil
			}
			found = m
		}
	}
	return found
}

func (env *SpecEnv) expand(m *Macro, args []Val) Val {
	if env.depth > 40 {
		env.fail("macro recursion through %s", m.Name)
	}
	if len(args) != len(m.Params) {
		env.fail("macro %s expects %d arguments", m.Name, len(m.Params))
	}
	c := env.child()
	c.depth = env.depth + 1
	// macros see only their parameters and quantifier-bound names, not the caller's locals
	c.frame = nil
	for i, p := range m.Params {
		c.bind[p] = args[i]
	}
	// a macro written over the type parameters of a generic type (K, V of btree[K, V]) may be used
	// where that type is instantiated under other names (btree[T, struct{}] in Set[T]): the names of
	// the origin's type parameters denote the arguments' type arguments inside the macro
	for _, a := range args {
		t := a.Go
		if t == nil {
			continue
		}
		if p, ok := types.Unalias(t).Underlying().(*types.Pointer); ok {
			t = p.Elem()
		}
		if n, ok := types.Unalias(t).(*types.Named); ok && n.TypeArgs() != nil && n.TypeArgs().Len() > 0 {
			tps := n.Origin().TypeParams()
			for i := 0; i < tps.Len() && i < n.TypeArgs().Len(); i++ {
				name := tps.At(i).Obj().Name()
				ta := n.TypeArgs().At(i)
				if tp, isTP := ta.(*types.TypeParam); isTP && tp.Obj().Name() == name {
					continue
				}
				if c.typeAlias == nil || &c.typeAlias == &env.typeAlias {
					na := map[string]types.Type{}
					for k, v := range env.typeAlias {
						na[k] = v
					}
					c.typeAlias = na
				}
				if _, has := c.typeAlias[name]; !has {
					c.typeAlias[name] = ta
				}
			}
		}
	}
	if pk := env.ex.prog.Pkgs[m.Pkg]; pk != nil {
		c.pkg = pk
	}
	return c.eval(m.Body)
}

func (env *SpecEnv) bin(x *SBin) Val {
	bv := func(t string) Val { return Val{T: t, S: sBool, Go: types.Typ[types.Bool]} }
	switch x.Op {
	case "&&":
		return bv(sAnd(env.boolTerm(x.L), env.boolTerm(x.R)))
	case "||":
		return bv(sOr(env.boolTerm(x.L), env.boolTerm(x.R)))
	case "==>":
		return bv(sImp(env.flip().boolTerm(x.L), env.boolTerm(x.R)))
	case "<==>":
		return bv(sEq(env.nopol().boolTerm(x.L), env.nopol().boolTerm(x.R)))
	}
	env = env.nopol()
	l, r := env.eval(x.L), env.eval(x.R)
	switch x.Op {
	case "==":
		return bv(env.eq(l, r))
	case "!=":
		return bv(sNot(env.eq(l, r)))
	case "<", "<=", ">", ">=":
		if l.S.Kind == KUn {
			return bv(env.ex.orderedCmp(x.Op, l, r))
		}
		return bv(fmt.Sprintf("(%s %s %s)", x.Op, l.T, r.T))
	case "+", "-", "*":
		return Val{T: fmt.Sprintf("(%s %s %s)", x.Op, l.T, r.T), S: sInt, Go: l.Go}
	case "/":
		return Val{T: goDiv(l.T, r.T), S: sInt, Go: l.Go}
	case "%":
		return Val{T: goMod(l.T, r.T), S: sInt, Go: l.Go}
	case "<<":
		return Val{T: fmt.Sprintf("(* %s %s)", l.T, pow2(r.T)), S: sInt, Go: l.Go}
	}
	env.fail("operator %s", x.Op)
	return Val{}
}

func (env *SpecEnv) eq(l, r Val) string {
	if l.S.Kind == KSlice && r.S.Kind == KRef && r.T == "nil" {
		return fmt.Sprintf("(= (s_arr %s) nilarr)", l.T)
	}
	if r.S.Kind == KSlice && l.S.Kind == KRef && l.T == "nil" {
		return fmt.Sprintf("(= (s_arr %s) nilarr)", r.T)
	}
	if l.S.Name != r.S.Name {
		env.fail("comparison of different sorts %s and %s", l.S.Name, r.S.Name)
	}
	return sEq(l.T, r.T)
}

func (env *SpecEnv) quant(x *SQuant) Val {
	ex := env.ex
	if ex.bounded == 0 && ((x.Forall && env.pol > 0) || (!x.Forall && env.pol < 0)) {
		c := env.child()
		for _, v := range x.Vars {
			ty, s := env.resolveType(v.Type)
			n := ex.w.freshConst("sk_"+v.Name, s)
			c.bind[v.Name] = Val{T: n, S: s, Go: ty}
			if s.Kind == KInt {
				ex.noteIx(n)
			}
		}
		// hint(e) terms in the triggers: the skolem instance of e is made available as a ground
		// hint fact, so that hypotheses triggered by hint() can be instantiated for it
		for _, tr := range x.Triggers {
			for _, te := range tr {
				if call, ok := te.(*SCall); ok {
					if id, ok := call.Fn.(*SIdent); ok && (id.Name == "hint" || id.Name == "hint2" || id.Name == "hint3") && len(call.Args) == 1 {
						hc := c.nopol()
						v := hc.eval(call.Args[0])
						if v.S.Kind == KInt {
							hn := sym(id.Name)
							ex.w.declFun(hn, []*Sort{sInt}, sBool)
							ex.goalIx = append(ex.goalIx, "("+hn+" "+v.T+")")
						}
					}
				}
			}
		}
		return Val{T: c.boolTerm(x.Body), S: sBool, Go: types.Typ[types.Bool]}
	}
	c := env.child()
	c.pol = 0
	var decl []string
	type bv struct {
		name string
		s    *Sort
	}
	var bvs []bv
	for _, v := range x.Vars {
		ty, s := env.resolveType(v.Type)
		*env.qn++
		n := fmt.Sprintf("q_%s_%d_%d", v.Name, *env.qn, ex.qcounter())
		c.bind[v.Name] = Val{T: n, S: s, Go: ty}
		decl = append(decl, fmt.Sprintf("(%s %s)", n, s.Name))
		bvs = append(bvs, bv{n, s})
	}
	if ex.bounded > 0 {
		// bounded mode: expand integer quantifiers over a small range
		allInt := true
		for _, b := range bvs {
			if b.s.Kind != KInt {
				allInt = false
			}
		}
		if allInt && len(bvs) <= 2 {
			var parts []string
			var rec func(i int, cc *SpecEnv)
			rec = func(i int, cc *SpecEnv) {
				if i == len(x.Vars) {
					parts = append(parts, cc.boolTerm(x.Body))
					return
				}
				for k := -1; k <= ex.bounded; k++ {
					c2 := cc.child()
					c2.bind[x.Vars[i].Name] = Val{T: sIntLit(int64(k)), S: sInt, Go: types.Typ[types.Int]}
					rec(i+1, c2)
				}
			}
			rec(0, env)
			if x.Forall {
				return Val{T: sAnd(parts...), S: sBool, Go: types.Typ[types.Bool]}
			}
			return Val{T: sOr(parts...), S: sBool, Go: types.Typ[types.Bool]}
		}
	}
	body := c.boolTerm(x.Body)
	var pats string
	noIx := false
	for _, tr := range x.Triggers {
		// {noix}: only the written triggers, no index-witness pattern
		if len(tr) == 1 {
			if id, ok := tr[0].(*SIdent); ok && id.Name == "noix" {
				noIx = true
				continue
			}
		}
		var ts []string
		for _, t := range tr {
			ts = append(ts, c.eval(t).T)
		}
		pats += " :pattern (" + strings.Join(ts, " ") + ")"
	}
	q := "forall"
	if !x.Forall {
		q = "exists"
	}
	// index-witness pattern: every integer-quantified formula can also be instantiated at any
	// index expression that the code or a contract uses to access a slice or sequence
	allInt := true
	var ixs []string
	for _, b := range bvs {
		if b.s.Kind != KInt {
			allInt = false
		}
		ixs = append(ixs, "("+ex.ixFn()+" "+b.name+")")
	}
	if allInt && len(bvs) <= 2 && !noIx {
		pats += " :pattern (" + strings.Join(ixs, " ") + ")"
	}
	if pats != "" {
		body = "(! " + body + pats + ")"
	}
	return Val{T: fmt.Sprintf("(%s (%s) %s)", q, strings.Join(decl, " "), body), S: sBool, Go: types.Typ[types.Bool]}
}

var qctr int

func (ex *Exec) qcounter() int { qctr++; return qctr }

func (env *SpecEnv) call(x *SCall) Val {
	ex := env.ex
	if id, ok := x.Fn.(*SIdent); ok {
		shadow := false
		if bv, ok := env.bind[id.Name]; ok {
			_, shadow = sigOf(bv.Go)
		} else if env.frame != nil {
			// a parameter or local of function type shadows builtins and macros of the same name
			if _, fv, ok := env.frame.lookupName(id.Name); ok {
				_, shadow = sigOf(fv.Go)
			}
		}
		if !shadow {
			switch id.Name {
			case "len", "cap":
				v := env.eval(x.Args[0])
				if v.S.Kind == KSlice {
					return Val{T: fmt.Sprintf("(s_%s %s)", id.Name, v.T), S: sInt, Go: types.Typ[types.Int]}
				}
				if _, ok := goMapType(v.Go); ok && id.Name == "len" {
					return ex.mapLenPure(env.st, v)
				}
				env.fail("len of %s", specString(x.Args[0]))
			case "zero":
				if a, ok := x.Args[0].(*SIdent); ok {
					if _, isVal := env.bind[a.Name]; !isVal {
						if ty, s := env.tryResolveType(a.Name); s != nil {
							return Val{T: ex.w.zero(s), S: s, Go: ty}
						}
					}
				}
				v := env.eval(x.Args[0])
				return Val{T: ex.w.zero(v.S), S: v.S, Go: v.Go}
			case "iter":
				// iter(K, e): e in the state at the start of the current iteration of loop K
				lit, ok := x.Args[0].(*SInt)
				if !ok || len(x.Args) != 2 {
					env.fail("iter(K, e) needs a literal loop ordinal")
				}
				var snap *State
				ord, _ := strconv.Atoi(lit.V)
				snap = env.iterSnap[ord]
				if snap == nil {
					env.fail("iter(%d, ...): not inside loop %d", ord, ord)
				}
				n := env.with(snap)
				if env.frame != nil {
					n.frame = snap.frame
				}
				return n.eval(x.Args[1])
			case "zeroof":
				a, ok := x.Args[0].(*SStr)
				if !ok {
					env.fail("zeroof needs a quoted type")
				}
				ty, s := env.resolveType(a.V)
				return Val{T: ex.w.zero(s), S: s, Go: ty}
			case "alloc":
				v := env.eval(x.Args[0])
				if v.S.Kind == KSlice {
					return Val{T: sSel(ex.arrAllocArr(env.st), fmt.Sprintf("(s_arr %s)", v.T)), S: sBool}
				}
				return Val{T: sSel(ex.allocArr(env.st), v.T), S: sBool}
			case "fresh":
				v := env.eval(x.Args[0])
				if env.old == nil {
					env.fail("fresh() needs an old state")
				}
				if v.S.Kind == KSlice {
					a := fmt.Sprintf("(s_arr %s)", v.T)
					return Val{T: sAnd(sNot(sEq(a, "nilarr")), sNot(sSel(ex.arrAllocArr(env.old), a)), sSel(ex.arrAllocArr(env.st), a)), S: sBool}
				}
				return Val{T: sAnd(sNot(sEq(v.T, "nil")), sNot(sSel(ex.allocArr(env.old), v.T)), sSel(ex.allocArr(env.st), v.T)), S: sBool}
			case "chseq", "chn", "chpos", "chsent", "chns", "chclosed":
				c := env.nopol().eval(x.Args[0])
				elem := chanElem(c.Go)
				if elem == nil {
					env.fail("%s needs a channel", id.Name)
				}
				ck := ex.chanKeysOf(elem)
				var k mapKeyInfo
				var rs *Sort
				var rgo types.Type
				es := ex.w.sortOf(elem)
				switch id.Name {
				case "chseq":
					k = ck.seq
					ss := *ex.w.seqSort(es)
					e2 := *es
					e2.Go = elem
					ss.Elem = &e2
					rs = &ss
				case "chsent":
					k = ck.sent
					ss := *ex.w.seqSort(es)
					e2 := *es
					e2.Go = elem
					ss.Elem = &e2
					rs = &ss
				case "chn":
					k, rs, rgo = ck.n, sInt, types.Typ[types.Int]
				case "chpos":
					k, rs, rgo = ck.pos, sInt, types.Typ[types.Int]
				case "chns":
					k, rs, rgo = ck.ns, sInt, types.Typ[types.Int]
				case "chclosed":
					k, rs, rgo = ck.closed, sBool, types.Typ[types.Bool]
				}
				return Val{T: ex.chGet(env.st, k, c.T), S: rs, Go: rgo}
			case "hint", "hint2", "hint3":
				// instantiation hint: contributes the index-witness fact (ix e) when the enclosing
				// formula is assumed, and is simply true when it has to be proved
				v := env.nopol().eval(x.Args[0])
				if env.pol > 0 || v.S.Kind != KInt {
					return Val{T: "true", S: sBool}
				}
				hn := sym(id.Name)
				ex.w.declFun(hn, []*Sort{sInt}, sBool)
				return Val{T: "(" + hn + " " + v.T + ")", S: sBool}
			case "touch":
				// instantiation hint for any term: an uninterpreted predicate that occurs only
				// positively (assumed, or in the hypothesis of a goal), so that the ground term e is
				// present for E-matching; simply true where it would have to be proved
				v := env.nopol().eval(x.Args[0])
				if env.pol > 0 {
					return Val{T: "true", S: sBool}
				}
				hn := sym("touch_" + sanitizeFile(strings.Trim(v.S.Name, "|")))
				ex.w.declFun(hn, []*Sort{v.S}, sBool)
				return Val{T: "(" + hn + " " + v.T + ")", S: sBool}
			case "row":
				v := env.eval(x.Args[0])
				if v.S.Kind != KSlice {
					env.fail("row() needs a slice")
				}
				ss := *ex.w.seqSort(v.S.Elem)
				e2 := *v.S.Elem
				e2.Go = elemGoType(v.Go)
				ss.Elem = &e2
				return Val{T: sSel(ex.heapGet(env.st, ex.memKey(v.S.Elem), ex.w.memSort(v.S.Elem), elemGoType(v.Go)), fmt.Sprintf("(s_arr %s)", v.T)), S: &ss}
			case "arr":
				v := env.eval(x.Args[0])
				return Val{T: fmt.Sprintf("(s_arr %s)", v.T), S: sArrId}
			case "off":
				v := env.eval(x.Args[0])
				return Val{T: fmt.Sprintf("(s_off %s)", v.T), S: sInt, Go: types.Typ[types.Int]}
			case "sameSlice":
				a, b := env.eval(x.Args[0]), env.eval(x.Args[1])
				return Val{T: sEq(a.T, b.T), S: sBool}
			case "box":
				v := env.nopol().eval(x.Args[0])
				if v.S.Kind == KRef {
					return v
				}
				return Val{T: ex.box(v), S: sRef}
			case "isa", "unbox":
				// isa(x, T): interface value x holds a T; unbox(x, T): the T it holds
				v := env.nopol().eval(x.Args[0])
				tn, ok := x.Args[1].(*SIdent)
				if !ok {
					env.fail("%s needs a type name", id.Name)
				}
				ty, ts := env.resolveType(tn.Name)
				if ts.Kind == KRef {
					if id.Name == "isa" {
						return Val{T: "true", S: sBool}
					}
					return Val{T: v.T, S: sRef, Go: ty}
				}
				bx := ex.box(Val{T: "x", S: ts, Go: ty})
				fnBox := strings.TrimSuffix(strings.TrimPrefix(bx, "("), " x)")
				un := strings.Replace(fnBox, "box_", "unbox_", 1)
				if id.Name == "isa" {
					return Val{T: sAnd(sNot(sEq(v.T, "nil")), sEq(v.T, sApp(fnBox, sApp(un, v.T)))), S: sBool}
				}
				return Val{T: sApp(un, v.T), S: ts, Go: ty}
			case "minval", "maxval":
				v := env.nopol().eval(x.Args[0])
				lo, hi, ok := ex.intRange(v.Go)
				if !ok {
					env.fail("%s: no finite range for this type", id.Name)
				}
				if id.Name == "minval" {
					return Val{T: lo, S: sInt, Go: v.Go}
				}
				return Val{T: hi, S: sInt, Go: v.Go}
			case "abs":
				v := env.eval(x.Args[0])
				return Val{T: fmt.Sprintf("(abs %s)", v.T), S: sInt, Go: v.Go}
			case "min", "max":
				a, b := env.eval(x.Args[0]), env.eval(x.Args[1])
				op := "<"
				if id.Name == "max" {
					op = ">"
				}
				return Val{T: sIte(fmt.Sprintf("(%s %s %s)", op, a.T, b.T), a.T, b.T), S: sInt, Go: a.Go}
			case "store":
				a, i, v := env.eval(x.Args[0]), env.eval(x.Args[1]), env.eval(x.Args[2])
				return Val{T: sStore(a.T, i.T, v.T), S: a.S, Go: a.Go}
			case "has":
				// has(m, k): key k present in Go map m
				m, k := env.eval(x.Args[0]), env.eval(x.Args[1])
				mt, ok := goMapType(m.Go)
				if !ok {
					env.fail("has() needs a map")
				}
				return ex.mapHasPure(env.st, m, k, mt)
			case "single":
				// single(x): the set containing exactly x
				v := env.nopol().eval(x.Args[0])
				ss := ex.w.setSort(v.S)
				return Val{T: sStore(fmt.Sprintf("((as const %s) false)", ss.Name), v.T, "true"), S: ss}
			case "domof":
				m := env.nopol().eval(x.Args[0])
				mt, ok := goMapType(m.Go)
				if !ok {
					env.fail("domof() needs a map")
				}
				ki := ex.mapKeys(env.st, mt)
				ks, _, _ := ex.mapSorts(mt)
				return Val{T: sSel(env.st.heap[ki[0].key], m.T), S: ex.w.setSort(ks)}
			case "dyntype":
				v := env.eval(x.Args[0])
				return Val{T: sApp(ex.dynTypeFn(), v.T), S: ex.w.unSort("TypeTag")}
			case "typeof":
				a := x.Args[0].(*SStr)
				return Val{T: ex.typeTag(a.V), S: ex.w.unSort("TypeTag")}
			}
			if m := env.macro(id.Name); m != nil {
				var args []Val
				for _, a := range x.Args {
					args = append(args, env.nopol().eval(a))
				}
				return env.expand(m, args)
			}
			if uf := env.ufun(id.Name); uf != nil {
				var args []Val
				for _, a := range x.Args {
					args = append(args, env.eval(a))
				}
				return env.ufunApply(uf.decl, args)
			}
		}
	}
	// application of a function value
	f := env.eval(x.Fn)
	sig, ok := sigOf(f.Go)
	if !ok {
		env.fail("cannot call %s", specString(x.Fn))
	}
	var args []Val
	for _, a := range x.Args {
		args = append(args, env.eval(a))
	}
	if len(args) != sig.Params().Len() {
		env.fail("function value %s applied to %d arguments, takes %d", specString(x.Fn), len(args), sig.Params().Len())
	}
	for i, a := range args {
		if ps := ex.w.sortOf(sig.Params().At(i).Type()); ps.Name != a.S.Name {
			env.fail("function value %s: argument %d has sort %s, want %s", specString(x.Fn), i, a.S.Name, ps.Name)
		}
	}
	rs := ex.applyPure(f, sig, args)
	if len(rs) != 1 {
		env.fail("function value with %d results used in a spec: %s", len(rs), specString(x.Fn))
	}
	return rs[0]
}

func sigOf(t types.Type) (*types.Signature, bool) {
	if t == nil {
		return nil, false
	}
	s, ok := types.Unalias(t).Underlying().(*types.Signature)
	return s, ok
}

func (env *SpecEnv) sel(x *SSel) Val {
	ex := env.ex
	// qualified package identifier?
	if id, ok := x.X.(*SIdent); ok {
		if _, bound := env.bind[id.Name]; !bound {
			isLocal := false
			if env.frame != nil {
				_, _, isLocal = env.frame.lookupName(id.Name)
			}
			if !isLocal && env.macro(id.Name) == nil {
				if pk := ex.prog.pkgByShort(id.Name); pk != nil {
					if obj := pk.P.Types.Scope().Lookup(x.Name); obj != nil {
						switch o := obj.(type) {
						case *types.Const:
							return ex.constObj(o)
						case *types.Var:
							return ex.globalVar(env.st, o)
						}
					}
				}
				if v, ok := ex.stdGlobal(id.Name, x.Name); ok {
					return v
				}
			}
		}
	}
	if v, ok := env.nestedGhost(x); ok {
		return v
	}
	base := env.eval(x.X)
	return env.fieldOf(base, x.Name)
}

// nestedGhostPath: ghost state attached to the value stored in a struct field, declared as
// `ghost Struct.field.name type` (used for function-valued fields: the ghost belongs to the
// function value, so it survives copying the struct by value).
func (env *SpecEnv) nestedGhostPath(x *SSel) (idx Val, key string, gs *Sort, gty types.Type, ok bool) {
	inner, isSel := x.X.(*SSel)
	if !isSel {
		return
	}
	// cheap syntactic pre-check against the declared ghost fields
	found := false
	for _, ps := range env.ex.prog.AllSpecs {
		for k := range ps.Ghosts {
			if strings.HasSuffix(k, "."+inner.Name+"."+x.Name) {
				found = true
			}
		}
	}
	if !found {
		return
	}
	y := env.eval(inner.X)
	g, k, s, t := env.ghostField(y.Go, inner.Name+"."+x.Name)
	if g == nil {
		return
	}
	return env.fieldOf(y, inner.Name), k, s, t, true
}

func (env *SpecEnv) nestedGhost(x *SSel) (Val, bool) {
	idx, key, gs, gty, ok := env.nestedGhostPath(x)
	if !ok {
		return Val{}, false
	}
	a := env.ex.heapGet(env.st, key, env.ex.w.mapGSort(sRef, gs))
	return Val{T: sSel(a, idx.T), S: gs, Go: gty}, true
}

func (env *SpecEnv) fieldOf(base Val, name string) Val {
	ex := env.ex
	n, stT, isPtr := structOf(base.Go)
	if stT != nil {
		for i := 0; i < stT.NumFields(); i++ {
			f := stT.Field(i)
			if f.Name() != name {
				continue
			}
			if isPtr {
				return ex.loadFieldPure(env.st, base, f)
			}
			for _, sf := range base.S.Fields {
				if sf.Name == name {
					return Val{T: sApp(sf.Sel, base.T), S: sf.S, Go: ex.fieldType(base.Go, f)}
				}
			}
		}
	}
	// ghost field
	if g, key, gs, gty := env.ghostField(base.Go, name); g != nil {
		a := ex.heapGet(env.st, key, ex.w.mapGSort(sRef, gs), gty)
		return Val{T: sSel(a, base.T), S: gs, Go: gty}
	}
	_ = n
	tn := "?"
	if base.Go != nil {
		tn = base.Go.String()
	}
	env.fail("no field %q on %s", name, tn)
	return Val{}
}

// ghostField finds a declared ghost field for the named type behind t.
func (env *SpecEnv) ghostField(t types.Type, name string) (*GhostField, string, *Sort, types.Type) {
	if t == nil {
		return nil, "", nil, nil
	}
	t = types.Unalias(t)
	if _, isFn := t.Underlying().(*types.Signature); isFn {
		// ghost state of a function value: `ghost func.name type`, the type is resolved in the
		// current scope (so that a type parameter T means the T of the function being verified)
		for _, ps := range env.ex.prog.AllSpecs {
			if gf, ok := ps.Ghosts["func."+name]; ok {
				// T in the ghost type means the first parameter type of the function value
				// (for internal/heap's indexChanged func(x T, i int): the element type)
				c := env.child()
				if sg, ok := t.Underlying().(*types.Signature); ok && sg.Params().Len() > 0 {
					c.typeAlias = map[string]types.Type{"T": sg.Params().At(0).Type()}
				}
				gty, gs := c.resolveType(gf.Type)
				return gf, "g:func." + name + ":" + gs.Name, gs, gty
			}
		}
		return nil, "", nil, nil
	}
	if p, ok := t.Underlying().(*types.Pointer); ok {
		t = types.Unalias(p.Elem())
	}
	nt, ok := t.(*types.Named)
	if !ok {
		return nil, "", nil, nil
	}
	obj := nt.Obj()
	if obj.Pkg() == nil {
		return nil, "", nil, nil
	}
	var g *GhostField
	var owner *PkgSpec
	for _, ps := range env.ex.prog.AllSpecs {
		if gf, ok := ps.Ghosts[obj.Name()+"."+name]; ok {
			// declared in the package of the type, or for an external type anywhere
			if ps.Path == obj.Pkg().Path() || env.ex.prog.Pkgs[obj.Pkg().Path()] == nil {
				g, owner = gf, ps
				break
			}
		}
	}
	if g == nil {
		return nil, "", nil, nil
	}
	// resolve the ghost type in the scope of the type declaration, then substitute type arguments
	c := env.child()
	c.tsub = map[*types.TypeParam]types.Type{}
	if tp := nt.Origin().TypeParams(); tp != nil && nt.TypeArgs() != nil {
		for i := 0; i < tp.Len(); i++ {
			c.tsub[tp.At(i)] = nt.TypeArgs().At(i)
		}
	}
	c.typeScopePkg = env.ex.prog.Pkgs[obj.Pkg().Path()]
	c.typeScopePos = obj.Pos() + token.Pos(len(obj.Name())) + 1
	if st, ok := nt.Origin().Underlying().(*types.Struct); ok && st.NumFields() > 0 {
		c.typeScopePos = st.Field(0).Pos()
	}
	if c.typeScopePkg == nil {
		// type declared outside the repository: the ghost type is resolved at package level of
		// the package that declares the ghost field
		c.typeScopePkg = env.ex.prog.Pkgs[owner.Path]
		c.typeScopePos = token.NoPos
		// a position in file scope of the file that holds the contracts (its imports are visible)
		if c.typeScopePkg != nil {
			for _, f := range c.typeScopePkg.P.Syntax {
				c.typeScopePos = f.Name.End()
				if strings.Contains(env.ex.prog.Fset.Position(f.Pos()).Filename, "verif_contracts") {
					break
				}
			}
		}
	}
	c.typeScopeNamed = nt.Origin()
	gty, gs := c.resolveType(g.Type)
	key := "g:" + env.ex.w.typeString(nt) + "." + name
	if strings.Contains(key, " any") && os.Getenv("GVC_DEBUG") != "" {
		panic("origin type in ghost key " + key)
	}
	return g, key, gs, gty
}

// resolveType resolves a spec type: int, bool, seq[T], set[T], map[K]V (ghost total map) or a Go type.
func (env *SpecEnv) resolveType(s string) (types.Type, *Sort) {
	ty, srt := env.tryResolveType(s)
	if srt == nil {
		env.fail("cannot resolve type %q", s)
	}
	return ty, srt
}

func (env *SpecEnv) tryResolveType(s string) (types.Type, *Sort) {
	ty, srt := env.tryResolveType0(s)
	if srt != nil || len(env.typeAlias) == 0 || env.typeScopeNamed != nil {
		return ty, srt
	}
	// retry with the aliased type-parameter names substituted inside the type text
	s0 := s
	{
		// substitute aliased type-parameter names inside a composite type text
		for name, ty := range env.typeAlias {
			re := regexp.MustCompile(`\b` + regexp.QuoteMeta(name) + `\b`)
			if re.MatchString(s) {
				qual := func(p *types.Package) string {
					if env.pkg != nil && p == env.pkg.P.Types {
						return ""
					}
					return p.Name()
				}
				s = re.ReplaceAllString(s, types.TypeString(ty, qual))
			}
		}
	}
	if s == s0 {
		return nil, nil
	}
	return env.tryResolveType0(s)
}

func (env *SpecEnv) tryResolveType0(s string) (types.Type, *Sort) {
	ex := env.ex
	s = strings.TrimSpace(s)
	if ty, ok := env.typeAlias[s]; ok {
		return ty, ex.w.sortOf(ty)
	}
	switch s {
	case "int":
		return types.Typ[types.Int], sInt
	case "bool":
		return types.Typ[types.Bool], sBool
	case "ArrId":
		return nil, sArrId
	}
	for _, ps := range ex.prog.AllSpecs {
		if ps.Sorts[s] {
			return nil, ex.w.unSort(s)
		}
	}
	if strings.HasPrefix(s, "typeof(") && strings.HasSuffix(s, ")") {
		e, err := parseSpec(s[7 : len(s)-1])
		if err != nil {
			return nil, nil
		}
		v := env.eval(e)
		return v.Go, v.S
	}
	if strings.HasPrefix(s, "seq[") && strings.HasSuffix(s, "]") {
		ety, es := env.tryResolveType(s[4 : len(s)-1])
		if es == nil {
			return nil, nil
		}
		ss := *ex.w.seqSort(es)
		e2 := *es
		e2.Go = ety
		ss.Elem = &e2
		return nil, &ss
	}
	if strings.HasPrefix(s, "set[") && strings.HasSuffix(s, "]") {
		_, es := env.tryResolveType(s[4 : len(s)-1])
		if es == nil {
			return nil, nil
		}
		return nil, ex.w.setSort(es)
	}
	if strings.HasPrefix(s, "gmap[") {
		// gmap[K]V
		depth := 0
		for i := 4; i < len(s); i++ {
			if s[i] == '[' {
				depth++
			}
			if s[i] == ']' {
				depth--
				if depth == 0 {
					_, ks := env.tryResolveType(s[5:i])
					vty, vs := env.tryResolveType(s[i+1:])
					if ks == nil || vs == nil {
						return nil, nil
					}
					ms := *ex.w.mapGSort(ks, vs)
					v2 := *vs
					v2.Go = vty
					ms.Elem = &v2
					return nil, &ms
				}
			}
		}
	}
	// a type parameter known by name through the substitution (needed for ghost fields of generic
	// types declared outside the repository)
	for tp, ty := range env.tsub {
		if s == tp.Obj().Name() || s == "*"+tp.Obj().Name() {
			if tp.Obj().Pkg() != nil && ex.prog.Pkgs[tp.Obj().Pkg().Path()] == nil {
				t := ty
				if strings.HasPrefix(s, "*") {
					t = types.NewPointer(ty)
				}
				return t, ex.w.sortOf(t)
			}
		}
	}
	// Go type
	expr, err := parser.ParseExpr(s)
	if err != nil {
		return nil, nil
	}
	pkg := env.pkg
	pos := token.NoPos
	if env.typeScopePkg != nil {
		pkg, pos = env.typeScopePkg, env.typeScopePos
	} else if env.fi != nil {
		pkg = env.fi.Pkg
		pos = env.fi.Decl.Body.Lbrace + 1
	}
	if pkg == nil {
		return nil, nil
	}
	info := &types.Info{Types: map[ast.Expr]types.TypeAndValue{}}
	err = types.CheckExpr(ex.prog.Fset, pkg.P.Types, pos, expr, info)
	if err != nil && env.typeScopePkg != nil {
		// try the file scopes of the package (imports are per file)
		for _, f := range pkg.P.Syntax {
			info = &types.Info{Types: map[ast.Expr]types.TypeAndValue{}}
			if err = types.CheckExpr(ex.prog.Fset, pkg.P.Types, f.Name.End(), expr, info); err == nil {
				break
			}
		}
	}
	if err != nil {
		// unexported type of another package of the repository: [*]pkg.name[Args]
		if ty := env.resolveForeign(s); ty != nil {
			defer func() { recover() }()
			return ty, ex.w.sortOf(ty)
		}
		return nil, nil
	}
	tv, ok := info.Types[expr]
	if !ok || !tv.IsType() {
		return nil, nil
	}
	ty := substType(tv.Type, env.tsub)
	defer func() { recover() }()
	return ty, ex.w.sortOf(ty)
}

// ---------- pure (assumption-free) heap reads for specs ----------

func (ex *Exec) loadFieldPure(st *State, base Val, f *types.Var) Val {
	n, stT, _ := structOf(base.Go)
	ft := ex.fieldType(base.Go, f)
	if ex.nestedStruct(ft) {
		return ex.loadStructPure(st, ex.fieldAddr(base.T, base.Go, f.Name()), ft)
	}
	fs := ex.w.sortOf(ft)
	if arr, ok := types.Unalias(ft).Underlying().(*types.Array); ok {
		return ex.arrayFieldSlice(base.T, n, stT, f.Name(), arr, ft)
	}
	key := ex.fieldKey(n, stT, f.Name())
	a := ex.heapGet(st, key, ex.fieldArraySort(fs), ft)
	return Val{T: sSel(a, base.T), S: fs, Go: ft}
}

func (ex *Exec) loadStructPure(st *State, ref string, ty types.Type) Val {
	n, stT, _ := structOf(ty)
	s := ex.w.sortOf(namedOr(n, stT))
	var vs []string
	for i := 0; i < stT.NumFields(); i++ {
		fv := ex.loadFieldPure(st, Val{T: ref, S: sRef, Go: types.NewPointer(namedOr(n, stT))}, stT.Field(i))
		vs = append(vs, fv.T)
	}
	return Val{T: ex.w.mkStruct(s, vs), S: s, Go: namedOr(n, stT)}
}

func (ex *Exec) loadElemPure(st *State, sl Val, idx string) Val {
	m := ex.heapGet(st, ex.memKey(sl.S.Elem), ex.w.memSort(sl.S.Elem), elemGoType(sl.Go))
	arr, raw := elemAddr(sl.T, idx)
	return Val{T: sSel(sSel(m, arr), raw), S: sl.S.Elem, Go: elemGoType(sl.Go)}
}

// ---------- modifies / frames ----------

type modTarget struct {
	key  string // heap key
	obj  string // Ref or ArrId term (evaluated in the pre-state)
	sort *Sort  // sort of the heap array
}

type writeSet struct {
	vars map[types.Object]bool
	keys map[string]*Sort
	all  bool
	chanAll bool // channel ghost state of every element sort seen so far
}

// evalModifies evaluates the modifies targets of a contract in env (pre-state).
func (env *SpecEnv) evalModifies(c *Contract) []modTarget {
	ex := env.ex
	var out []modTarget
	for _, m := range c.Modifies {
		switch x := m.(type) {
		case *SCall:
			if id, ok := x.Fn.(*SIdent); ok && id.Name == "elems" {
				v := env.eval(x.Args[0])
				if v.S.Kind != KSlice {
					env.fail("elems() needs a slice")
				}
				ex.mem(env.st, v.S.Elem)
				out = append(out, modTarget{key: ex.memKey(v.S.Elem), obj: fmt.Sprintf("(s_arr %s)", v.T), sort: ex.w.memSort(v.S.Elem)})
				continue
			}
			if id, ok := x.Fn.(*SIdent); ok && id.Name == "all" {
				// all(x.f): location f of EVERY object (no frame for this heap array)
				sub := &Contract{Modifies: []SExpr{x.Args[0]}}
				for _, t := range env.evalModifies(sub) {
					t.obj = "*"
					out = append(out, t)
				}
				continue
			}
			if id, ok := x.Fn.(*SIdent); ok {
				switch id.Name {
				case "chseq", "chn", "chpos", "chsent", "chns", "chclosed":
					c := env.eval(x.Args[0])
					elem := chanElem(c.Go)
					if elem == nil {
						env.fail("%s needs a channel", id.Name)
					}
					ck := ex.chanKeysOf(elem)
					k := map[string]mapKeyInfo{"chseq": ck.seq, "chn": ck.n, "chpos": ck.pos, "chsent": ck.sent, "chns": ck.ns, "chclosed": ck.closed}[id.Name]
					ex.heapGet(env.st, k.key, k.sort)
					out = append(out, modTarget{key: k.key, obj: c.T, sort: k.sort})
					continue
				}
			}
			if id, ok := x.Fn.(*SIdent); ok && id.Name == "mapof" {
				v := env.eval(x.Args[0])
				mt, ok := goMapType(v.Go)
				if !ok {
					env.fail("mapof() needs a map")
				}
				for _, t := range ex.mapKeys(env.st, mt) {
					out = append(out, modTarget{key: t.key, obj: v.T, sort: t.sort})
				}
				continue
			}
			env.fail("bad modifies target %s", specString(m))
		case *SSel:
			if idx, key, gs, _, ok := env.nestedGhostPath(x); ok {
				as := ex.w.mapGSort(sRef, gs)
				ex.heapGet(env.st, key, as)
				out = append(out, modTarget{key: key, obj: idx.T, sort: as})
				continue
			}
			base := env.eval(x.X)
			n, stT, isPtr := structOf(base.Go)
			if !isPtr && stT != nil {
				// x.f.g where f is a struct stored by value inside the heap object x: the sub-object
				if inner, ok := x.X.(*SSel); ok && ex.nestedStruct(base.Go) {
					base = env.eval(&SUn{Op: "&", X: inner})
					n, stT, isPtr = structOf(base.Go)
				}
			}
			if !isPtr && stT != nil {
				env.fail("modifies target %s is not a heap location", specString(m))
			}
			if x.Name == "all" && stT != nil {
				for i := 0; i < stT.NumFields(); i++ {
					out = append(out, env.fieldTarget(base, n, stT, stT.Field(i)))
				}
				out = append(out, env.ghostTargets(base)...)
				continue
			}
			found := false
			if stT != nil {
				for i := 0; i < stT.NumFields(); i++ {
					if stT.Field(i).Name() == x.Name {
						out = append(out, env.fieldTarget(base, n, stT, stT.Field(i)))
						found = true
					}
				}
			}
			if !found {
				if g, key, gs, _ := env.ghostField(base.Go, x.Name); g != nil {
					as := ex.w.mapGSort(sRef, gs)
					ex.heapGet(env.st, key, as)
					out = append(out, modTarget{key: key, obj: base.T, sort: as})
					found = true
				}
			}
			if !found {
				env.fail("modifies: no field %s", specString(m))
			}
		default:
			env.fail("bad modifies target %s", specString(m))
		}
	}
	return out
}

func (env *SpecEnv) fieldTarget(base Val, n *types.Named, stT *types.Struct, f *types.Var) modTarget {
	ex := env.ex
	ft := ex.fieldType(base.Go, f)
	if arr, ok := types.Unalias(ft).Underlying().(*types.Array); ok {
		sl := ex.arrayFieldSlice(base.T, n, stT, f.Name(), arr, ft)
		ex.mem(env.st, sl.S.Elem)
		return modTarget{key: ex.memKey(sl.S.Elem), obj: fmt.Sprintf("(s_arr %s)", sl.T), sort: ex.w.memSort(sl.S.Elem)}
	}
	fs := ex.w.sortOf(ft)
	key := ex.fieldKey(n, stT, f.Name())
	as := ex.fieldArraySort(fs)
	ex.heapGet(env.st, key, as, ft)
	return modTarget{key: key, obj: base.T, sort: as}
}

func (env *SpecEnv) ghostTargets(base Val) []modTarget {
	var out []modTarget
	t := types.Unalias(base.Go)
	if p, ok := t.Underlying().(*types.Pointer); ok {
		t = types.Unalias(p.Elem())
	}
	nt, ok := t.(*types.Named)
	if !ok {
		return nil
	}
	for _, ps := range env.ex.prog.AllSpecs {
		for k, g := range ps.Ghosts {
			if g.Struct == nt.Obj().Name() && strings.HasPrefix(k, g.Struct+".") {
				if gf, key, gs, _ := env.ghostField(base.Go, g.Name); gf != nil {
					as := env.ex.w.mapGSort(sRef, gs)
					env.ex.heapGet(env.st, key, as)
					out = append(out, modTarget{key: key, obj: base.T, sort: as})
				}
			}
		}
	}
	return out
}

// frameCond: every location of heap array `key` that existed in `pre` and is not a target keeps
// its value between pre and post.
func (ex *Exec) frameCond(pre, post *State, key string, s *Sort, targets []modTarget) string {
	a0, a1 := pre.heap[key], post.heap[key]
	if a0 == a1 {
		return "true"
	}
	idxSort := "Ref"
	allocA := ex.allocArr(pre)
	allocB := ex.allocArr(post)
	if s.Idx == sArrId || s.Idx.Kind == KArrId {
		idxSort = "ArrId"
		allocA = ex.arrAllocArr(pre)
		allocB = ex.arrAllocArr(post)
	}
	var excl []string
	for _, t := range targets {
		if t.key == key {
			if t.obj == "*" {
				return "true"
			}
			excl = append(excl, sNot(sEq("r", t.obj)))
		}
	}
	// everything except the targets and the objects allocated in between keeps its value
	guard := "true" // nothing was allocated in between: everything but the targets is unchanged
	if allocA != allocB {
		guard = sOr(sSel(allocA, "r"), sNot(sSel(allocB, "r")))
	}
	if idxSort == "ArrId" && len(ex.w.arrOfFns) > 0 {
		// the backing array of an array-typed field is as old as the object that owns it
		oa, ob := ex.allocArr(pre), ex.allocArr(post)
		var owned, ownedOK []string
		for _, fn := range ex.w.arrOfFns {
			inv := strings.Replace(fn, "arrof_", "arrof_inv_", 1)
			is := sEq(sApp(fn, sApp(inv, "r")), "r")
			owned = append(owned, is)
			if oa != ob {
				ownedOK = append(ownedOK, sImp(is, sOr(sSel(oa, sApp(inv, "r")), sNot(sSel(ob, sApp(inv, "r"))))))
			}
		}
		guard = sAnd(append(ownedOK, sImp(sNot(sOr(owned...)), guard))...)
	}
	if idxSort == "Ref" {
		// the heap "at nil" is never read by executable code (a nil dereference panics)
		excl = append(excl, sNot(sEq("r", "nil")))
	}
	return fmt.Sprintf("(forall ((r %s)) (! (=> %s (= (select %s r) (select %s r))) :pattern ((select %s r))))",
		idxSort, sAnd(append([]string{guard}, excl...)...), a1, a0, a1)
}

// havocHeap replaces every heap array in ws by a fresh one constrained by the frame condition
// relative to pre (targets == nil: constrained by the enclosing method's modifies clause).
func (ex *Exec) havocHeap(st *State, pre *State, ws *writeSet, targets []modTarget) {
	useTop := targets == nil
	// allocation only grows
	if ws.all || ws.keys["alloc"] != nil {
		a0 := ex.allocArr(st)
		a1 := ex.heapHavoc(st, "alloc", ex.w.setSort(sRef))
		st.assume(fmt.Sprintf("(forall ((r Ref)) (! (=> (select %s r) (select %s r)) :pattern ((select %s r))))", a0, a1, a0))
		st.assume(sNot(sSel(a1, "nil")))
	}
	if ws.all || ws.keys["arralloc"] != nil {
		a0 := ex.arrAllocArr(st)
		a1 := ex.heapHavoc(st, "arralloc", ex.w.setSort(sArrId))
		st.assume(fmt.Sprintf("(forall ((r ArrId)) (! (=> (select %s r) (select %s r)) :pattern ((select %s r))))", a0, a1, a0))
	}
	if ws.chanAll {
		for key, s := range ex.heapS {
			if strings.HasPrefix(key, "ch") && strings.Contains(key, ":") && ws.keys[key] == nil {
				switch strings.SplitN(key, ":", 2)[0] {
				case "chseq", "chn", "chpos", "chsent", "chns", "chclosed":
					ws.keys[key] = s
				}
			}
		}
	}
	for _, key := range sortedKeys(ws.keys) {
		s := ws.keys[key]
		if key == "alloc" || key == "arralloc" {
			continue
		}
		ex.heapGet(st, key, s)
		if _, ok := pre.heap[key]; !ok {
			pre.heap[key] = st.heap[key]
		}
		n := ex.heapHavoc(st, key, s)
		if ax := ex.heapTyping(n, key, s, ex.allocArr(st), ex.arrAllocArr(st)); ax != "" {
			st.assume(ax)
			ex.w.weak[ax] = true
		}
		if useTop {
			// inside a loop: locations outside the method's modifies clause keep their entry value
			if ex.entry != nil && ex.topTargets != nil {
				if _, ok := ex.entry.heap[key]; ok {
					st.assume(ex.frameCond(ex.entry, st, key, s, ex.topTargets))
				}
			}
		} else {
			st.assume(ex.frameCond(pre, st, key, s, targets))
		}
	}
}

// frameObligations: at an exit (or loop back-edge) of the top-level function every heap array
// must satisfy the modifies clause relative to the entry state.
func (ex *Exec) frameObligations(st *State, where string, pos token.Pos) {
	if ex.entry == nil || ex.top.isClient() {
		return
	}
	var goals, keys []string
	for _, key := range sortedKeys(st.heap) {
		if key == "alloc" || key == "arralloc" {
			continue
		}
		e0, ok := ex.entry.heap[key]
		if !ok || e0 == st.heap[key] {
			continue
		}
		s := ex.heapS[key]
		if s == nil || s.Idx == nil {
			continue
		}
		goals = append(goals, ex.frameCond(ex.entry, st, key, s, ex.topTargets))
		keys = append(keys, key)
	}
	if len(goals) == 0 {
		return
	}
	ex.oblige(st, "frame."+where, nil, sAnd(goals...), "only locations in the modifies clause change: "+strings.Join(keys, ", "), pos)
}

func (fi *FuncInfo) isClient() bool { return strings.HasPrefix(fi.Decl.Name.Name, "verifClient") }

// ghostUpdate executes `ghost x.f := e` in env.st.
func (env *SpecEnv) ghostUpdate(g *GhostUpd) {
	ex := env.ex
	sel, ok := g.LHS.(*SSel)
	if !ok {
		// ghost local?
		if id, ok := g.LHS.(*SIdent); ok {
			if lam, isLam := g.RHS.(*SLambda); isLam {
				// ghost local of sequence sort defined pointwise
				c := env.child()
				_, vs := env.resolveType(lam.Vars[0].Type)
				n := fmt.Sprintf("lam_%s_%d", lam.Vars[0].Name, ex.qcounter())
				c.bind[lam.Vars[0].Name] = Val{T: n, S: vs}
				body := c.eval(lam.Body)
				srt := ex.w.mapGSort(vs, body.S)
				if vs.Kind == KInt {
					ss := *ex.w.seqSort(body.S)
					b2 := *body.S
					b2.Go = body.Go
					ss.Elem = &b2
					srt = &ss
				}
				arr := ex.w.freshConst("glam", srt)
				env.st.assume(fmt.Sprintf("(forall ((%s %s)) (! (= (select %s %s) %s) :pattern ((select %s %s))))", n, vs.Name, arr, n, body.T, arr, n))
				ex.ghostLocals(env.st)[id.Name] = Val{T: arr, S: srt}
				env.bind[id.Name] = Val{T: arr, S: srt}
				return
			}
			v := env.eval(g.RHS)
			ex.ghostLocals(env.st)[id.Name] = v
			env.bind[id.Name] = v
			return
		}
		env.fail("ghost update target must be x.field: %s", g.Src)
	}
	var base Val
	var key string
	var gs *Sort
	var gty types.Type
	if idx, k, s, t, ok := env.nestedGhostPath(sel); ok {
		base, key, gs, gty = idx, k, s, t
	} else {
		base = env.eval(sel.X)
		var gf *GhostField
		gf, key, gs, gty = env.ghostField(base.Go, sel.Name)
		if gf == nil {
			env.fail("no ghost field %s", specString(g.LHS))
		}
	}
	var val string
	if lam, ok := g.RHS.(*SLambda); ok {
		if gs.Kind != KSeq && gs.Kind != KMapG && gs.Kind != KSet {
			env.fail("lambda assigned to non-function ghost field")
		}
		c := env.child()
		if len(lam.Vars) != 1 {
			env.fail("lambda must bind one variable")
		}
		_, vs := env.resolveType(lam.Vars[0].Type)
		*env.qn++
		n := fmt.Sprintf("lam_%s_%d_%d", lam.Vars[0].Name, *env.qn, ex.qcounter())
		c.bind[lam.Vars[0].Name] = Val{T: n, S: vs, Go: gs.idxGo()}
		body := c.eval(lam.Body)
		arr := ex.w.freshConst("lam", gs)
		env.st.assume(fmt.Sprintf("(forall ((%s %s)) (! (= (select %s %s) %s) :pattern ((select %s %s))))", n, vs.Name, arr, n, body.T, arr, n))
		val = arr
	} else {
		v := env.eval(g.RHS)
		val = v.T
	}
	_ = gty
	as := ex.w.mapGSort(sRef, gs)
	a := ex.heapGet(env.st, key, as)
	ex.heapSet(env.st, key, as, sStore(a, base.T, val))
}

func (s *Sort) idxGo() types.Type {
	if s.Idx != nil {
		return s.Idx.Go
	}
	return nil
}

func (ex *Exec) ghostLocals(st *State) map[string]Val {
	if st.frame.ghost == nil {
		st.frame.ghost = map[string]Val{}
	}
	return st.frame.ghost
}

func (env *SpecEnv) resolveForeign(s string) types.Type {
	ptr := false
	if strings.HasPrefix(s, "*") {
		ptr = true
		s = s[1:]
	}
	dot := strings.Index(s, ".")
	if dot < 0 {
		return nil
	}
	pk := env.ex.prog.pkgByShort(s[:dot])
	if pk == nil {
		return nil
	}
	rest := s[dot+1:]
	name := rest
	var argStrs []string
	if i := strings.Index(rest, "["); i >= 0 && strings.HasSuffix(rest, "]") {
		name = rest[:i]
		argStrs = splitTop(rest[i+1:len(rest)-1], ',')
	}
	obj := pk.P.Types.Scope().Lookup(name)
	tn, ok := obj.(*types.TypeName)
	if !ok {
		return nil
	}
	var ty types.Type = tn.Type()
	if len(argStrs) > 0 {
		named, ok := ty.(*types.Named)
		if !ok {
			return nil
		}
		var args []types.Type
		for _, a := range argStrs {
			at, _ := env.tryResolveType(strings.TrimSpace(a))
			if at == nil {
				return nil
			}
			args = append(args, at)
		}
		inst, err := types.Instantiate(nil, named.Origin(), args, false)
		if err != nil {
			return nil
		}
		ty = inst
	}
	if ptr {
		ty = types.NewPointer(ty)
	}
	return ty
}

// ghostMapUpdate: the ghost field of every object c takes the value EXPR(c), evaluated in the
// current state.
func (env *SpecEnv) ghostMapUpdate(g *GhostMap) {
	ex := env.ex
	ty, s := env.resolveType(g.Type)
	gf, key, gs, _ := env.ghostField(ty, g.Field)
	if gf == nil {
		env.fail("ghostmap: no ghost field %s on %s", g.Field, g.Type)
	}
	c := env.child()
	n := fmt.Sprintf("gm_%s_%d", g.Var, ex.qcounter())
	c.bind[g.Var] = Val{T: n, S: s, Go: ty}
	body := c.eval(g.RHS)
	as := ex.w.mapGSort(sRef, gs)
	ex.heapGet(env.st, key, as)
	arr := ex.w.freshConst("gmap_"+g.Field, as)
	env.st.assume(fmt.Sprintf("(forall ((%s Ref)) (! (= (select %s %s) %s) :pattern ((select %s %s))))", n, arr, n, body.T, arr, n))
	env.st.heap[key] = arr
}
