package main

// expr.go: symbolic evaluation of Go expressions and calls.

import (
	"fmt"
	"go/ast"
	"go/constant"
	"go/token"
	"go/types"
	"strings"
)

func (ex *Exec) expr(st *State, e ast.Expr, k func(*State, Val)) {
	ex.exprN(st, e, func(st *State, vs []Val) {
		if len(vs) != 1 {
			panic(unsupported(fmt.Sprintf("expression %s yields %d values", exprStr(e), len(vs))))
		}
		k(st, vs[0])
	})
}

func (ex *Exec) constVal(fr *Frame, e ast.Expr) (Val, bool) {
	tv, ok := fr.info.Types[e]
	if !ok || tv.Value == nil {
		return Val{}, false
	}
	ty := substType(tv.Type, fr.tsub)
	switch tv.Value.Kind() {
	case constant.Int:
		if i, ok := constant.Int64Val(tv.Value); ok {
			if b, ok := types.Unalias(ty).Underlying().(*types.Basic); ok && b.Info()&types.IsFloat != 0 {
				return ex.floatConst(tv.Value.ExactString(), ty), true
			}
			return Val{T: sIntLit(i), S: sInt, Go: ty}, true
		}
		// huge constants (1<<63 etc.)
		s := tv.Value.ExactString()
		if strings.HasPrefix(s, "-") {
			return Val{T: "(- " + s[1:] + ")", S: sInt, Go: ty}, true
		}
		return Val{T: s, S: sInt, Go: ty}, true
	case constant.Bool:
		return Val{T: fmt.Sprint(constant.BoolVal(tv.Value)), S: sBool, Go: ty}, true
	case constant.String:
		s := ex.w.unSort("string")
		n := sym("str_" + fmt.Sprintf("%x", constant.StringVal(tv.Value)))
		ex.w.declConst(n, s)
		ex.w.noteDistinct("string", n)
		return Val{T: n, S: s, Go: ty}, true
	case constant.Float:
		return ex.floatConst(tv.Value.ExactString(), ty), true
	}
	return Val{}, false
}

func (ex *Exec) floatConst(text string, ty types.Type) Val {
	s := ex.w.unSort("float")
	n := sym("flt_" + text)
	ex.w.declConst(n, s)
	return Val{T: n, S: s, Go: ty}
}

func (ex *Exec) exprN(st *State, e ast.Expr, k func(*State, []Val)) {
	fr := st.frame
	one := func(st *State, v Val) { k(st, []Val{v}) }
	if _, isLit := e.(*ast.FuncLit); !isLit {
		if v, ok := ex.constVal(fr, e); ok {
			one(st, v)
			return
		}
	}
	switch x := e.(type) {
	case *ast.ParenExpr:
		ex.exprN(st, x.X, k)
	case *ast.Ident:
		ex.ident(st, x, one)
	case *ast.BasicLit:
		panic(unsupported("literal " + x.Value))
	case *ast.SelectorExpr:
		ex.selector(st, x, one)
	case *ast.StarExpr:
		ex.expr(st, x.X, func(st *State, p Val) {
			ex.nilCheck(st, p, x.Pos(), func(st *State) {
				pt := types.Unalias(p.Go).Underlying().(*types.Pointer)
				one(st, ex.loadStruct(st, p.T, pt.Elem()))
			})
		})
	case *ast.UnaryExpr:
		ex.unary(st, x, k)
	case *ast.BinaryExpr:
		ex.binary(st, x, one)
	case *ast.CallExpr:
		ex.call(st, x, k)
	case *ast.IndexExpr:
		ex.index(st, x, k)
	case *ast.IndexListExpr:
		// generic function instantiation used as a value
		panic(unsupported("generic function value " + exprStr(e)))
	case *ast.SliceExpr:
		ex.sliceExpr(st, x, one)
	case *ast.CompositeLit:
		ex.compositeLit(st, x, one)
	case *ast.FuncLit:
		one(st, ex.funcLit(st, x))
	case *ast.TypeAssertExpr:
		commaOk := false
		if tv, has := fr.info.Types[x]; has {
			if _, isTuple := tv.Type.(*types.Tuple); isTuple {
				commaOk = true
			}
		}
		ex.typeAssert(st, x, commaOk, k)
	default:
		panic(unsupported(fmt.Sprintf("expression %T", e)))
	}
}

func (ex *Exec) ident(st *State, x *ast.Ident, k func(*State, Val)) {
	fr := st.frame
	obj := fr.info.ObjectOf(x)
	switch o := obj.(type) {
	case *types.Nil:
		k(st, Val{T: "nil", S: sRef, Go: types.Typ[types.UntypedNil]})
		return
	case *types.Var:
		if v, owner, ok := fr.lookupVar(o); ok {
			if owner.boxed[o] {
				k(st, ex.loadStruct(st, v.T, v.Go))
				return
			}
			k(st, v)
			return
		}
		// package-level variable
		k(st, ex.globalVar(st, o))
		return
	case *types.Func:
		k(st, ex.funcValue(o, substType(o.Type(), fr.tsub)))
		return
	case *types.Const:
		panic(unsupported("constant " + x.Name))
	}
	panic(unsupported("identifier " + x.Name))
}

// globalVar: package-level variables are treated as immutable symbolic constants; error sentinels
// created with errors.New are distinct and non-nil.
func (ex *Exec) globalVar(st *State, o *types.Var) Val {
	ty := o.Type()
	s := ex.w.sortOf(ty)
	n := sym("glob_" + o.Pkg().Name() + "." + o.Name())
	if !ex.w.declared[n] {
		ex.w.declConst(n, s)
		if s.Kind == KRef && isErrorType(ty) {
			ex.w.axioms = append(ex.w.axioms, sNot(sEq(n, "nil")))
			ex.w.noteDistinct("err", n)
		}
	}
	return Val{T: n, S: s, Go: ty}
}

func isErrorType(t types.Type) bool {
	return types.Identical(t, types.Universe.Lookup("error").Type())
}

func (w *World) noteDistinct(group, n string) {
	if w.distinct == nil {
		w.distinct = map[string][]string{}
	}
	for _, x := range w.distinct[group] {
		if x == n {
			return
		}
	}
	w.distinct[group] = append(w.distinct[group], n)
}

func (ex *Exec) funcValue(o *types.Func, ty types.Type) Val {
	n := sym("fn_" + o.FullName())
	if !ex.w.declared[n] {
		ex.w.declConst(n, sRef)
		ex.w.axioms = append(ex.w.axioms, sNot(sEq(n, "nil")))
	}
	if ex.fnObjs == nil {
		ex.fnObjs = map[string]*types.Func{}
	}
	ex.fnObjs[n] = o
	return Val{T: n, S: sRef, Go: ty}
}

func (ex *Exec) selector(st *State, x *ast.SelectorExpr, k func(*State, Val)) {
	fr := st.frame
	sel := fr.info.Selections[x]
	if sel == nil {
		// qualified identifier pkg.Name
		obj := fr.info.Uses[x.Sel]
		switch o := obj.(type) {
		case *types.Var:
			k(st, ex.globalVar(st, o))
			return
		case *types.Func:
			k(st, ex.funcValue(o, substType(o.Type(), fr.tsub)))
			return
		}
		panic(unsupported("qualified identifier " + exprStr(x)))
	}
	switch sel.Kind() {
	case types.FieldVal:
		if len(sel.Index()) != 1 {
			panic(unsupported("embedded field selection " + exprStr(x)))
		}
		f := sel.Obj().(*types.Var)
		ex.expr(st, x.X, func(st *State, base Val) {
			_, _, isPtr := structOf(base.Go)
			if isPtr {
				ex.nilCheck(st, base, x.Pos(), func(st *State) {
					k(st, ex.loadField(st, base, f))
				})
				return
			}
			for _, sf := range base.S.Fields {
				if sf.Name == f.Name() {
					k(st, Val{T: sApp(sf.Sel, base.T), S: sf.S, Go: ex.fieldType(base.Go, f)})
					return
				}
			}
			panic(unsupported("field " + f.Name() + " of " + base.S.Name))
		})
	case types.MethodVal:
		// method value (bound): only supported when called directly; as a value it is opaque
		panic(unsupported("method value " + exprStr(x)))
	default:
		panic(unsupported("selector " + exprStr(x)))
	}
}

func (ex *Exec) unary(st *State, x *ast.UnaryExpr, k func(*State, []Val)) {
	one := func(st *State, v Val) { k(st, []Val{v}) }
	switch x.Op {
	case token.NOT:
		ex.expr(st, x.X, func(st *State, v Val) { one(st, Val{T: sNot(v.T), S: sBool, Go: v.Go}) })
	case token.SUB:
		ex.expr(st, x.X, func(st *State, v Val) { one(st, ex.wrapInt(Val{T: "(- " + v.T + ")", S: v.S, Go: v.Go})) })
	case token.ADD:
		ex.expr(st, x.X, one)
	case token.AND:
		ex.addrOf(st, x, one)
	case token.ARROW:
		ex.recvExpr(st, x, false, k)
	default:
		panic(unsupported("unary " + x.Op.String()))
	}
}

func (ex *Exec) addrOf(st *State, x *ast.UnaryExpr, k func(*State, Val)) {
	ex.addrOfExpr(st, x.X, ex.typeOf(st.frame, x), k)
}

func (ex *Exec) addrOfExpr(st *State, xx ast.Expr, pty types.Type, k func(*State, Val)) {
	fr := st.frame
	inner := ast.Unparen(xx)
	switch in := inner.(type) {
	case *ast.CompositeLit:
		ex.compositeLit(st, in, func(st *State, v Val) {
			r := ex.newRef(st, "new")
			ex.allocSub(st, r, v.Go)
			ex.storeStruct(st, r, v)
			if n, _, _ := structOf(v.Go); n != nil && n.Obj().Pkg() != nil {
				st.assume(sEq(sApp(ex.dynTypeFn(), r), ex.typeTag(n.Obj().Pkg().Name()+"."+n.Obj().Name())))
			}
			k(st, Val{T: r, S: sRef, Go: pty})
		})
	case *ast.Ident:
		obj := fr.info.ObjectOf(in)
		v, owner, ok := fr.lookupVar(obj)
		if !ok {
			panic(unsupported("address of " + in.Name))
		}
		if owner.boxed[obj] {
			k(st, Val{T: v.T, S: sRef, Go: pty})
			return
		}
		if v.S.Kind != KStruct {
			panic(unsupported("address of non-struct local " + in.Name))
		}
		r := ex.newRef(st, "box_"+in.Name)
		ex.allocSub(st, r, v.Go)
		ex.storeStruct(st, r, v)
		owner.vars[obj] = Val{T: r, S: sRef, Go: v.Go}
		owner.boxed[obj] = true
		k(st, Val{T: r, S: sRef, Go: pty})
	case *ast.SelectorExpr:
		// &x.arrayField -> slice over the whole array (used for amalgam-style pointers to arrays)
		ft := ex.typeOf(fr, in)
		if _, ok := types.Unalias(ft).Underlying().(*types.Array); ok {
			ex.arrayPlace(st, in, func(st *State, sl Val) {
				k(st, Val{T: sl.T, S: sl.S, Go: pty})
			})
			return
		}
		if _, stT, _ := structOf(ft); stT != nil {
			if sel := fr.info.Selections[in]; sel != nil && sel.Kind() == types.FieldVal {
				if _, _, basePtr := structOf(ex.typeOf(fr, in.X)); basePtr {
					// the address of a struct-typed field of a heap object is a reference of its own,
					// an injective function of the enclosing object (used for embedded sync.Map etc.;
					// only ghost state may hang off it)
					ex.expr(st, in.X, func(st *State, base Val) {
						ex.nilCheck(st, base, in.Pos(), func(st *State) {
							k(st, Val{T: ex.fieldAddr(base.T, ex.typeOf(st.frame, in.X), sel.Obj().Name()), S: sRef, Go: pty})
						})
					})
					return
				}
			}
		}
		panic(unsupported("address of field " + exprStr(in)))
	default:
		panic(unsupported("address of " + exprStr(inner)))
	}
}

// arrayPlace evaluates an expression of array type to the slice view of its storage.
func (ex *Exec) arrayPlace(st *State, e ast.Expr, k func(*State, Val)) {
	e = ast.Unparen(e)
	fr := st.frame
	switch x := e.(type) {
	case *ast.SelectorExpr:
		sel := fr.info.Selections[x]
		if sel != nil && sel.Kind() == types.FieldVal {
			bt := ex.typeOf(fr, x.X)
			n, stT, isPtr := structOf(bt)
			if isPtr {
				ex.expr(st, x.X, func(st *State, base Val) {
					ex.nilCheck(st, base, x.Pos(), func(st *State) {
						ft := ex.fieldType(base.Go, sel.Obj().(*types.Var))
						arr := types.Unalias(ft).Underlying().(*types.Array)
						k(st, ex.arrayFieldSlice(base.T, n, stT, sel.Obj().Name(), arr, ft))
					})
				})
				return
			}
		}
	case *ast.StarExpr:
		// *p where p is a pointer to an array
		ex.expr(st, x.X, func(st *State, p Val) {
			k(st, Val{T: p.T, S: &Sort{Kind: KSlice, Name: "Slice", Elem: ex.w.sortOf(elemGoType(p.Go))}, Go: p.Go})
		})
		return
	case *ast.Ident:
		ex.expr(st, x, k)
		return
	}
	panic(unsupported("array expression " + exprStr(e)))
}

func (ex *Exec) binary(st *State, x *ast.BinaryExpr, k func(*State, Val)) {
	if x.Op == token.LAND || x.Op == token.LOR {
		if isSimple(x.Y) {
			ex.expr(st, x.X, func(st *State, l Val) {
				// evaluate the right operand under the guard of the left one (obligations only)
				st2 := st.fork()
				if x.Op == token.LAND {
					st2.assume(l.T)
				} else {
					st2.assume(sNot(l.T))
				}
				var r Val
				got := false
				ex.expr(st2, x.Y, func(_ *State, v Val) { r = v; got = true })
				if !got {
					panic(unsupported("guarded operand did not evaluate"))
				}
				if x.Op == token.LAND {
					k(st, Val{T: sAnd(l.T, r.T), S: sBool, Go: l.Go})
				} else {
					k(st, Val{T: sOr(l.T, r.T), S: sBool, Go: l.Go})
				}
			})
			return
		}
		ex.cond(st, x, func(st *State) { k(st, Val{T: "true", S: sBool, Go: types.Typ[types.Bool]}) },
			func(st *State) { k(st, Val{T: "false", S: sBool, Go: types.Typ[types.Bool]}) })
		return
	}
	ex.expr(st, x.X, func(st *State, l Val) {
		ex.expr(st, x.Y, func(st *State, r Val) {
			ty := ex.typeOf(st.frame, x)
			if x.Op == token.QUO || x.Op == token.REM {
				if l.S.Kind == KInt {
					ex.safety(st, "safe.div", sNot(sEq(r.T, "0")), "division by zero", x.Pos(), func(st *State) {
						v := ex.binop(st, x.Op.String(), l, r, x.Pos(), ty)
						if x.Op == token.REM {
							// redundant hint (a theorem of integer arithmetic): 0 <= a < 2b  ==>  a % b == (a < b ? a : a-b)
							v.T = ex.w.define("rem", sInt, v.T)
							st.assume(fmt.Sprintf("(=> (and (> %s 0) (<= 0 %s) (< %s (* 2 %s))) (= %s (ite (< %s %s) %s (- %s %s))))", r.T, l.T, l.T, r.T, v.T, l.T, r.T, l.T, l.T, r.T))
							st.assume(fmt.Sprintf("(=> (and (> %s 0) (< %s 0) (>= %s (- %s))) (= %s (ite (= %s (- %s)) 0 %s)))", r.T, l.T, l.T, r.T, v.T, l.T, r.T, l.T))
						}
						k(st, v)
					})
					return
				}
			}
			v := ex.binop(st, x.Op.String(), l, r, x.Pos(), ty)
			k(st, v)
		})
	})
}

func (ex *Exec) binop(st *State, op string, l, r Val, pos token.Pos, ty types.Type) Val {
	bv := func(t string) Val { return Val{T: t, S: sBool, Go: types.Typ[types.Bool]} }
	iv := func(t string) Val { return ex.wrapInt(Val{T: t, S: sInt, Go: ty}) }
	switch op {
	case "==":
		return bv(ex.equal(l, r))
	case "!=":
		return bv(sNot(ex.equal(l, r)))
	}
	if l.S.Kind == KUn && l.S == ex.w.unSort("float") {
		return ex.floatOp(op, l, r, ty)
	}
	if l.S.Kind == KUn && op == "+" {
		// string concatenation
		fn := sym("strcat")
		ex.w.declFun(fn, []*Sort{l.S, l.S}, l.S)
		return Val{T: sApp(fn, l.T, r.T), S: l.S, Go: ty}
	}
	if l.S.Kind == KUn && (op == "<" || op == "<=" || op == ">" || op == ">=") {
		// ordered type parameter (constraints.Ordered) or string: a total order
		return bv(ex.orderedCmp(op, l, r))
	}
	switch op {
	case "<", "<=", ">", ">=":
		return bv(fmt.Sprintf("(%s %s %s)", op, l.T, r.T))
	case "+", "-", "*":
		return iv(fmt.Sprintf("(%s %s %s)", op, l.T, r.T))
	case "/":
		return iv(goDiv(l.T, r.T))
	case "%":
		return iv(goMod(l.T, r.T))
	case "<<":
		return iv(fmt.Sprintf("(* %s %s)", l.T, pow2(r.T)))
	case "&&":
		return bv(sAnd(l.T, r.T))
	case "||":
		return bv(sOr(l.T, r.T))
	}
	panic(unsupported("binary operator " + op))
}

func pow2(t string) string {
	var n int
	if _, err := fmt.Sscanf(t, "%d", &n); err == nil && n >= 0 && n < 63 {
		return fmt.Sprint(int64(1) << uint(n))
	}
	panic(unsupported("shift by non-constant"))
}

// Go's truncated division and remainder in terms of SMT-LIB's floor-style div/mod.
func goDiv(a, b string) string {
	if isPosLit(b) {
		return fmt.Sprintf("(ite (>= %s 0) (div %s %s) (- (div (- %s) %s)))", a, a, b, a, b)
	}
	return fmt.Sprintf("(ite (>= %s 0) (ite (> %s 0) (div %s %s) (- (div %s (- %s)))) (ite (> %s 0) (- (div (- %s) %s)) (div (- %s) (- %s))))", a, b, a, b, a, b, b, a, b, a, b)
}
func goMod(a, b string) string {
	if isPosLit(b) {
		return fmt.Sprintf("(ite (>= %s 0) (mod %s %s) (- (mod (- %s) %s)))", a, a, b, a, b)
	}
	return fmt.Sprintf("(ite (>= %s 0) (mod %s (abs %s)) (- (mod (- %s) (abs %s))))", a, a, b, a, b)
}

func isPosLit(s string) bool {
	if s == "" || s == "0" {
		return false
	}
	for _, c := range s {
		if c < '0' || c > '9' {
			return false
		}
	}
	return true
}

func (ex *Exec) orderedCmp(op string, l, r Val) string {
	lt := sym("lt_" + strings.Trim(l.S.Name, "|"))
	if !ex.w.declared[lt] {
		ex.w.declFun(lt, []*Sort{l.S, l.S}, sBool)
		s := l.S.Name
		ex.w.axioms = append(ex.w.axioms,
			fmt.Sprintf("(forall ((a %s)) (not (%s a a)))", s, lt),
			fmt.Sprintf("(forall ((a %s) (b %s) (c %s)) (=> (and (%s a b) (%s b c)) (%s a c)))", s, s, s, lt, lt, lt),
			fmt.Sprintf("(forall ((a %s) (b %s)) (or (%s a b) (%s b a) (= a b)))", s, s, lt, lt),
		)
	}
	switch op {
	case "<":
		return sApp(lt, l.T, r.T)
	case ">":
		return sApp(lt, r.T, l.T)
	case "<=":
		return sNot(sApp(lt, r.T, l.T))
	case ">=":
		return sNot(sApp(lt, l.T, r.T))
	}
	panic("cmp")
}

func (ex *Exec) floatOp(op string, l, r Val, ty types.Type) Val {
	s := l.S
	switch op {
	case "<", "<=", ">", ">=":
		fn := sym("flt_" + op)
		ex.w.declFun(fn, []*Sort{s, s}, sBool)
		return Val{T: sApp(fn, l.T, r.T), S: sBool, Go: types.Typ[types.Bool]}
	default:
		fn := sym("flt_" + op)
		ex.w.declFun(fn, []*Sort{s, s}, s)
		return Val{T: sApp(fn, l.T, r.T), S: s, Go: ty}
	}
}

func (ex *Exec) equal(l, r Val) string {
	if l.S.Kind == KSlice || r.S.Kind == KSlice {
		// only comparison with nil is legal
		s := l
		if l.S.Kind != KSlice {
			s = r
		}
		return fmt.Sprintf("(= (s_arr %s) nilarr)", s.T)
	}
	return sEq(l.T, r.T)
}

// wrapInt applies two's complement wrap-around for narrow integer types; int/int64/uint64 are
// treated as mathematical integers (listed assumption).
func (ex *Exec) wrapInt(v Val) Val {
	if v.Go == nil || v.S.Kind != KInt {
		return v
	}
	b, ok := types.Unalias(v.Go).Underlying().(*types.Basic)
	if !ok {
		return v
	}
	var bits int
	signed := true
	switch b.Kind() {
	case types.Int8:
		bits = 8
	case types.Int16:
		bits = 16
	case types.Int32:
		bits = 32
	case types.Uint8:
		bits, signed = 8, false
	case types.Uint16:
		bits, signed = 16, false
	case types.Uint32:
		bits, signed = 32, false
	case types.Int, types.Int64:
		if !ex.wrap64 {
			return v
		}
		v.T = fmt.Sprintf("(- (mod (+ %s 9223372036854775808) 18446744073709551616) 9223372036854775808)", v.T)
		return v
	default:
		return v
	}
	m := int64(1) << uint(bits)
	if signed {
		h := m / 2
		v.T = fmt.Sprintf("(- (mod (+ %s %d) %d) %d)", v.T, h, m, h)
	} else {
		v.T = fmt.Sprintf("(mod %s %d)", v.T, m)
	}
	return v
}

func (ex *Exec) index(st *State, x *ast.IndexExpr, k func(*State, []Val)) {
	fr := st.frame
	one := func(st *State, v Val) { k(st, []Val{v}) }
	// generic instantiation f[T]
	if tv, ok := fr.info.Types[x.X]; ok {
		if _, isSig := tv.Type.Underlying().(*types.Signature); isSig {
			panic(unsupported("generic function value " + exprStr(x)))
		}
	}
	bt := ex.typeOf(fr, x.X)
	switch u := types.Unalias(bt).Underlying().(type) {
	case *types.Slice:
		ex.expr(st, x.X, func(st *State, base Val) {
			ex.expr(st, x.Index, func(st *State, idx Val) {
				ex.boundsCheck(st, idx.T, fmt.Sprintf("(s_len %s)", base.T), x.Pos(), func(st *State) {
					one(st, ex.loadElem(st, base, idx.T))
				})
			})
		})
	case *types.Array:
		ex.arrayPlace(st, x.X, func(st *State, base Val) {
			ex.expr(st, x.Index, func(st *State, idx Val) {
				ex.boundsCheck(st, idx.T, fmt.Sprint(u.Len()), x.Pos(), func(st *State) {
					one(st, ex.loadElem(st, base, idx.T))
				})
			})
		})
	case *types.Pointer:
		if arr, ok := types.Unalias(u.Elem()).Underlying().(*types.Array); ok {
			ex.expr(st, x.X, func(st *State, base Val) {
				ex.expr(st, x.Index, func(st *State, idx Val) {
					sl := ex.ptrArraySlice(base, arr)
					ex.boundsCheck(st, idx.T, fmt.Sprint(arr.Len()), x.Pos(), func(st *State) {
						one(st, ex.loadElem(st, sl, idx.T))
					})
				})
			})
			return
		}
		panic(unsupported("index of " + bt.String()))
	case *types.Map:
		ex.expr(st, x.X, func(st *State, m Val) {
			ex.expr(st, x.Index, func(st *State, key Val) {
				v, ok := ex.mapLoad(st, m, key)
				if tv, has := fr.info.Types[x]; has {
					if _, isTuple := tv.Type.(*types.Tuple); isTuple {
						k(st, []Val{v, ok})
						return
					}
				}
				k(st, []Val{v})
			})
		})
	default:
		panic(unsupported("index of " + bt.String()))
	}
}

func (ex *Exec) sliceExpr(st *State, x *ast.SliceExpr, k func(*State, Val)) {
	fr := st.frame
	bt := ex.typeOf(fr, x.X)
	rt := ex.typeOf(fr, x)
	eval := ex.expr
	if _, isArr := types.Unalias(bt).Underlying().(*types.Array); isArr {
		eval = ex.arrayPlace
	}
	if p, ok := types.Unalias(bt).Underlying().(*types.Pointer); ok {
		if arr, ok := types.Unalias(p.Elem()).Underlying().(*types.Array); ok {
			eval = func(st *State, e ast.Expr, k func(*State, Val)) {
				ex.expr(st, e, func(st *State, v Val) { k(st, ex.ptrArraySlice(v, arr)) })
			}
		}
	}
	if x.Slice3 {
		panic(unsupported("3-index slice"))
	}
	eval(st, x.X, func(st *State, base Val) {
		lo := func(st *State, k2 func(*State, string)) {
			if x.Low == nil {
				k2(st, "0")
				return
			}
			ex.expr(st, x.Low, func(st *State, v Val) { k2(st, v.T) })
		}
		lo(st, func(st *State, l string) {
			hi := func(st *State, k2 func(*State, string)) {
				if x.High == nil {
					k2(st, fmt.Sprintf("(s_len %s)", base.T))
					return
				}
				ex.expr(st, x.High, func(st *State, v Val) { k2(st, v.T) })
			}
			hi(st, func(st *State, h string) {
				cond := fmt.Sprintf("(and (<= 0 %s) (<= %s %s) (<= %s (s_cap %s)))", l, l, h, h, base.T)
				ex.safety(st, "safe.slice", cond, "slice bounds out of range", x.Pos(), func(st *State) {
					s := &Sort{Kind: KSlice, Name: "Slice", Elem: base.S.Elem, Go: rt}
					t := fmt.Sprintf("(mkslice (s_arr %s) (+ (s_off %s) %s) (- %s %s) (- (s_cap %s) %s))", base.T, base.T, l, h, l, base.T, l)
					k(st, Val{T: ex.w.defineOpaque("slice", s, t), S: s, Go: rt})
				})
			})
		})
	})
}

func (ex *Exec) compositeLit(st *State, x *ast.CompositeLit, k func(*State, Val)) {
	fr := st.frame
	ty := ex.typeOf(fr, x)
	switch u := types.Unalias(ty).Underlying().(type) {
	case *types.Struct:
		s := ex.w.sortOf(ty)
		vals := make([]string, len(s.Fields))
		for i, f := range s.Fields {
			vals[i] = ex.w.zero(f.S)
		}
		var rec func(st *State, i int)
		rec = func(st *State, i int) {
			if i == len(x.Elts) {
				k(st, Val{T: ex.w.mkStruct(s, vals), S: s, Go: ty})
				return
			}
			el := x.Elts[i]
			idx := i
			var valE ast.Expr = el
			if kv, ok := el.(*ast.KeyValueExpr); ok {
				name := kv.Key.(*ast.Ident).Name
				for j, f := range s.Fields {
					if f.Name == name {
						idx = j
					}
				}
				valE = kv.Value
			}
			ex.expr(st, valE, func(st *State, v Val) {
				vals = append([]string{}, vals...)
				vals[idx] = v.T
				rec(st, i+1)
			})
		}
		rec(st, 0)
	case *types.Slice:
		es := ex.w.sortOf(u.Elem())
		ex.exprList(st, x.Elts, func(st *State, vs []Val) {
			arr := ex.newArr(st, "lit")
			row := ex.zeroRow(es)
			for i, v := range vs {
				row = sStore(row, fmt.Sprint(i), v.T)
			}
			key := ex.memKey(es)
			ms := ex.w.memSort(es)
			m := ex.heapGet(st, key, ms)
			ex.heapSet(st, key, ms, sStore(m, arr, row))
			s := &Sort{Kind: KSlice, Name: "Slice", Elem: es, Go: ty}
			k(st, Val{T: fmt.Sprintf("(mkslice %s 0 %d %d)", arr, len(vs), len(vs)), S: s, Go: ty})
		})
	case *types.Map:
		if len(x.Elts) != 0 {
			panic(unsupported("non-empty map literal"))
		}
		k(st, ex.newMap(st, ty))
	default:
		panic(unsupported("composite literal of " + ty.String()))
	}
}

// ---------- builtin calls ----------

func (ex *Exec) builtin(st *State, name string, x *ast.CallExpr, k func(*State, []Val)) {
	fr := st.frame
	one := func(st *State, v Val) { k(st, []Val{v}) }
	switch name {
	case "len", "cap":
		at := ex.typeOf(fr, x.Args[0])
		switch u := types.Unalias(at).Underlying().(type) {
		case *types.Array:
			one(st, Val{T: fmt.Sprint(u.Len()), S: sInt, Go: types.Typ[types.Int]})
			return
		case *types.Map:
			ex.expr(st, x.Args[0], func(st *State, m Val) { one(st, ex.mapLen(st, m)) })
			return
		case *types.Chan:
			panic(unsupported("len of channel"))
		case *types.Pointer:
			if a, ok := types.Unalias(u.Elem()).Underlying().(*types.Array); ok {
				one(st, Val{T: fmt.Sprint(a.Len()), S: sInt, Go: types.Typ[types.Int]})
				return
			}
		case *types.Basic:
			ex.expr(st, x.Args[0], func(st *State, s Val) {
				fn := sym("strlen")
				ex.w.declFun(fn, []*Sort{s.S}, sInt)
				st.assume(fmt.Sprintf("(>= %s 0)", sApp(fn, s.T)))
				one(st, Val{T: sApp(fn, s.T), S: sInt, Go: types.Typ[types.Int]})
			})
			return
		}
		ex.expr(st, x.Args[0], func(st *State, s Val) {
			one(st, Val{T: fmt.Sprintf("(s_%s %s)", name, s.T), S: sInt, Go: types.Typ[types.Int]})
		})
	case "panic":
		ex.expr(st, x.Args[0], func(st *State, v Val) {
			st.frame.panicDesc = "explicit panic at " + ex.posString(x.Pos())
			ex.doPanic(st)
		})
	case "make":
		ty := ex.typeOf(fr, x)
		switch u := types.Unalias(ty).Underlying().(type) {
		case *types.Slice:
			ex.exprList(st, x.Args[1:], func(st *State, sz []Val) {
				n := sz[0].T
				c := n
				cond := fmt.Sprintf("(>= %s 0)", n)
				if len(sz) > 1 {
					c = sz[1].T
					cond = fmt.Sprintf("(and (>= %s 0) (>= %s %s))", n, c, n)
				}
				ex.safety(st, "safe.make", cond, "makeslice: len out of range", x.Pos(), func(st *State) {
					one(st, ex.makeSlice(st, ty, u.Elem(), n, c))
				})
			})
		case *types.Map:
			one(st, ex.newMap(st, ty))
		case *types.Chan:
			ex.makeChan(st, x, ty, one)
		default:
			panic(unsupported("make of " + ty.String()))
		}
	case "new":
		ty := ex.typeOf(fr, x)
		pt := types.Unalias(ty).Underlying().(*types.Pointer)
		r := ex.newRef(st, "new")
		ex.allocSub(st, r, pt.Elem())
		ex.storeStruct(st, r, ex.zeroVal(pt.Elem()))
		one(st, Val{T: r, S: sRef, Go: ty})
	case "append":
		ex.appendCall(st, x, one)
	case "copy":
		ex.exprList(st, x.Args, func(st *State, as []Val) {
			one(st, ex.copySlices(st, as[0], as[1]))
		})
	case "delete":
		ex.exprList(st, x.Args, func(st *State, as []Val) {
			ex.mapDelete(st, as[0], as[1])
			k(st, nil)
		})
	case "min", "max":
		ex.exprList(st, x.Args, func(st *State, as []Val) {
			r := as[0]
			for _, a := range as[1:] {
				op := "<"
				if name == "max" {
					op = ">"
				}
				cmp := fmt.Sprintf("(%s %s %s)", op, a.T, r.T)
				if a.S.Kind == KUn {
					cmp = ex.orderedCmp(op, a, r)
				}
				r = Val{T: sIte(cmp, a.T, r.T), S: r.S, Go: r.Go}
			}
			one(st, r)
		})
	case "close":
		ex.expr(st, x.Args[0], func(st *State, c Val) { ex.closeChan(st, c, x.Pos(), func(st *State) { k(st, nil) }) })
	default:
		panic(unsupported("builtin " + name))
	}
}

func (ex *Exec) makeSlice(st *State, ty, elem types.Type, n, c string) Val {
	es := ex.w.sortOf(elem)
	arr := ex.newArr(st, "make")
	key := ex.memKey(es)
	ms := ex.w.memSort(es)
	m := ex.heapGet(st, key, ms)
	ex.heapSet(st, key, ms, sStore(m, arr, ex.zeroRow(es)))
	s := &Sort{Kind: KSlice, Name: "Slice", Elem: es, Go: ty}
	return Val{T: ex.w.define("made", s, fmt.Sprintf("(mkslice %s 0 %s %s)", arr, n, c)), S: s, Go: ty}
}

// copySlices models copy(dst, src) with memmove semantics; returns the number of elements copied.
func (ex *Exec) copySlices(st *State, dst, src Val) Val {
	es := dst.S.Elem
	n := ex.w.define("ncopy", sInt, fmt.Sprintf("(ite (< (s_len %s) (s_len %s)) (s_len %s) (s_len %s))", dst.T, src.T, dst.T, src.T))
	key := ex.memKey(es)
	ms := ex.w.memSort(es)
	m := ex.heapGet(st, key, ms)
	row := ex.w.freshConst("copyrow", ex.w.seqSort(es))
	darr, doff := fmt.Sprintf("(s_arr %s)", dst.T), fmt.Sprintf("(s_off %s)", dst.T)
	sarr, soff := fmt.Sprintf("(s_arr %s)", src.T), fmt.Sprintf("(s_off %s)", src.T)
	st.assume(fmt.Sprintf("(forall ((k Int)) (! (= (select %s k) (ite (and (<= %s k) (< k (+ %s %s))) (select (select %s %s) (+ %s (- k %s))) (select (select %s %s) k))) :pattern ((select %s k))))",
		row, doff, doff, n, m, sarr, soff, doff, m, darr, row))
	ex.heapSet(st, key, ms, sStore(m, darr, row))
	return Val{T: n, S: sInt, Go: types.Typ[types.Int]}
}

func (ex *Exec) appendCall(st *State, x *ast.CallExpr, k func(*State, Val)) {
	fr := st.frame
	ty := ex.typeOf(fr, x)
	if x.Ellipsis.IsValid() {
		// append(a, b...)
		ex.exprList(st, x.Args, func(st *State, as []Val) {
			ex.appendSlice(st, as[0], as[1], ty, k)
		})
		return
	}
	ex.exprList(st, x.Args, func(st *State, as []Val) {
		base := as[0]
		base.Go = ty
		items := as[1:]
		if len(items) == 0 {
			k(st, base)
			return
		}
		need := fmt.Sprintf("(+ (s_len %s) %d)", base.T, len(items))
		fits := fmt.Sprintf("(<= %s (s_cap %s))", need, base.T)
		ex.branch(st, fits, func(st *State) {
			for i, it := range items {
				ex.storeElem(st, base, fmt.Sprintf("(+ (s_len %s) %d)", base.T, i), it)
			}
			s := base.S
			k(st, Val{T: ex.w.define("app", s, fmt.Sprintf("(mkslice (s_arr %s) (s_off %s) %s (s_cap %s))", base.T, base.T, need, base.T)), S: s, Go: ty})
		}, func(st *State) {
			// reallocation: fresh array, unspecified capacity >= need
			es := base.S.Elem
			arr := ex.newArr(st, "grow")
			c := ex.w.freshConst("growcap", sInt)
			st.assume(fmt.Sprintf("(>= %s %s)", c, need))
			key := ex.memKey(es)
			ms := ex.w.memSort(es)
			m := ex.heapGet(st, key, ms)
			row := ex.w.freshConst("growrow", ex.w.seqSort(es))
			st.assume(fmt.Sprintf("(forall ((k Int)) (! (=> (and (<= 0 k) (< k (s_len %s))) (= (select %s k) (select (select %s (s_arr %s)) (+ (s_off %s) k)))) :pattern ((select %s k))))",
				base.T, row, m, base.T, base.T, row))
			st.assume(fmt.Sprintf("(forall ((k Int)) (! (=> (and (<= %s k) (< k %s)) (= (select %s k) %s)) :pattern ((select %s k))))", need, c, row, ex.w.zero(es), row))
			r := row
			for i, it := range items {
				r = sStore(r, fmt.Sprintf("(+ (s_len %s) %d)", base.T, i), it.T)
			}
			ex.heapSet(st, key, ms, sStore(m, arr, r))
			s := base.S
			k(st, Val{T: ex.w.define("app", s, fmt.Sprintf("(mkslice %s 0 %s %s)", arr, need, c)), S: s, Go: ty})
		})
	})
}

func (ex *Exec) appendSlice(st *State, base, more Val, ty types.Type, k func(*State, Val)) {
	base.Go = ty
	need := fmt.Sprintf("(+ (s_len %s) (s_len %s))", base.T, more.T)
	fits := fmt.Sprintf("(<= %s (s_cap %s))", need, base.T)
	es := base.S.Elem
	key := ex.memKey(es)
	ms := ex.w.memSort(es)
	ex.branch(st, fits, func(st *State) {
		// copy more into base[len:need]
		dst := Val{T: fmt.Sprintf("(mkslice (s_arr %s) (+ (s_off %s) (s_len %s)) (s_len %s) (- (s_cap %s) (s_len %s)))", base.T, base.T, base.T, more.T, base.T, base.T), S: base.S, Go: ty}
		ex.copySlices(st, dst, more)
		k(st, Val{T: ex.w.define("app", base.S, fmt.Sprintf("(mkslice (s_arr %s) (s_off %s) %s (s_cap %s))", base.T, base.T, need, base.T)), S: base.S, Go: ty})
	}, func(st *State) {
		arr := ex.newArr(st, "grow")
		c := ex.w.freshConst("growcap", sInt)
		st.assume(fmt.Sprintf("(>= %s %s)", c, need))
		m := ex.heapGet(st, key, ms)
		row := ex.w.freshConst("growrow", ex.w.seqSort(es))
		st.assume(fmt.Sprintf("(forall ((k Int)) (! (=> (and (<= 0 k) (< k (s_len %s))) (= (select %s k) (select (select %s (s_arr %s)) (+ (s_off %s) k)))) :pattern ((select %s k))))",
			base.T, row, m, base.T, base.T, row))
		st.assume(fmt.Sprintf("(forall ((k Int)) (! (=> (and (<= (s_len %s) k) (< k %s)) (= (select %s k) (select (select %s (s_arr %s)) (+ (s_off %s) (- k (s_len %s)))))) :pattern ((select %s k))))",
			base.T, need, row, m, more.T, more.T, base.T, row))
		st.assume(fmt.Sprintf("(forall ((k Int)) (! (=> (and (<= %s k) (< k %s)) (= (select %s k) %s)) :pattern ((select %s k))))", need, c, row, ex.w.zero(es), row))
		ex.heapSet(st, key, ms, sStore(m, arr, row))
		k(st, Val{T: ex.w.define("app", base.S, fmt.Sprintf("(mkslice %s 0 %s %s)", arr, need, c)), S: base.S, Go: ty})
	})
}

// ---------- conversions ----------

func (ex *Exec) conversion(st *State, x *ast.CallExpr, to types.Type, k func(*State, Val)) {
	ex.expr(st, x.Args[0], func(st *State, v Val) {
		ts := ex.w.sortOf(to)
		if ts.Kind == v.S.Kind && ts.Name == v.S.Name {
			nv := Val{T: v.T, S: ts, Go: convGo(v.Go, to)}
			if ts.Kind == KInt {
				nv.Go = to
				nv = ex.wrapInt(nv)
			}
			k(st, nv)
			return
		}
		if ts.Kind == KRef && v.S.Kind == KRef {
			k(st, Val{T: v.T, S: ts, Go: convGo(v.Go, to)})
			return
		}
		// int <-> float and other conversions: uninterpreted
		fn := sym("conv_" + strings.Trim(v.S.Name, "|") + "_to_" + strings.Trim(ts.Name, "|"))
		ex.w.declFun(fn, []*Sort{v.S}, ts)
		k(st, Val{T: sApp(fn, v.T), S: ts, Go: to})
	})
}
