package main

import (
	"os/exec"
	"encoding/json"
	"flag"
	"fmt"
	"go/types"
	"os"
	"path/filepath"
	"regexp"
	"sort"
	"strconv"
	"strings"
	"time"
)

var verifDir = "/verif"

func main() {
	if len(os.Args) < 2 {
		fmt.Fprintln(os.Stderr, "usage: gvc check --property <id> [--tier quick|thorough] | gvc replay <file>")
		os.Exit(2)
	}
	switch os.Args[1] {
	case "check":
		os.Exit(cmdCheck(os.Args[2:]))
	case "replay":
		os.Exit(cmdReplay(os.Args[2:]))
	case "replaycheck":
		os.Exit(cmdReplayCheck(os.Args[2:]))
	default:
		fmt.Fprintln(os.Stderr, "unknown command", os.Args[1])
		os.Exit(2)
	}
}

type funcReport struct {
	Name        string
	Obligations int
	Unsupported string
	Paths       int
}

type checkOpts struct {
	prop     string
	tier     string
	repo     string
	only     string
	verbose  bool
	timeoutS int
	keepVC   bool
	outDir   string // vc / replay output below this directory (default /verif/out)
	canary   bool   // run on a scratch copy with a seeded change: no evidence, no canaries of its own
}

func cmdCheck(args []string) int {
	fs := flag.NewFlagSet("check", flag.ExitOnError)
	var o checkOpts
	fs.StringVar(&o.prop, "property", "", "property id")
	fs.StringVar(&o.tier, "tier", "", "quick or thorough")
	fs.StringVar(&o.repo, "repo", "/repo", "repository")
	fs.StringVar(&o.only, "func", "", "only this function (debug; no evidence written)")
	fs.BoolVar(&o.verbose, "v", false, "verbose")
	fs.IntVar(&o.timeoutS, "timeout", 0, "per-solver timeout in seconds")
	fs.StringVar(&o.outDir, "out", filepath.Join(verifDir, "out"), "directory for generated VCs and replay files")
	fs.BoolVar(&o.canary, "canary", false, "internal: run against a scratch copy carrying a seeded change (no evidence written)")
	fs.Parse(args)
	repoDir = strings.TrimSuffix(o.repo, "/")
	if o.tier == "" {
		o.tier = os.Getenv("VERIF_TIER")
	}
	if o.tier != "thorough" {
		o.tier = "quick"
	}
	if o.timeoutS == 0 {
		o.timeoutS = 15
		if o.tier == "thorough" {
			o.timeoutS = 60
		}
	}
	if o.prop == "" {
		fmt.Fprintln(os.Stderr, "--property required")
		return 2
	}
	return runCheck(&o)
}

func hasProp(ps []string, p string) bool {
	for _, x := range ps {
		if x == p {
			return true
		}
	}
	return false
}

func contractMentions(c *Contract, p string) bool {
	if hasProp(c.Props, p) {
		return true
	}
	for _, l := range [][]*Clause{c.Requires, c.Ensures, c.Panics, c.PEnsures} {
		for _, cl := range l {
			if hasProp(cl.Props, p) {
				return true
			}
		}
	}
	for _, ls := range c.Loops {
		for _, cl := range ls.Invs {
			if hasProp(cl.Props, p) {
				return true
			}
		}
	}
	return false
}

func runCheck(o *checkOpts) int {
	start := time.Now()
	thoroughDerives := map[string]string{} // callee -> lemma client that is only run in the thorough tier
	seed, _ := strconv.Atoi(os.Getenv("VERIF_SEED"))
	prog, err := loadProgram(o.repo)
	var all []*Obligation
	var items []*solveItem
	var reports []funcReport
	var genFailures []string
	assumed := map[string]bool{}
	vcDir := filepath.Join(o.outDir, "vc", o.prop)
	os.RemoveAll(vcDir)
	os.MkdirAll(vcDir, 0o755)
	if err != nil {
		genFailures = append(genFailures, "loading /repo failed: "+err.Error())
	} else {
		var fis []*FuncInfo
		for _, pk := range prog.Pkgs {
			for _, fi := range pk.Funcs {
				if fi.Spec == nil || fi.Spec.Ext || fi.Spec.Trusted {
					if fi.Spec != nil && fi.Spec.Trusted && contractMentions(fi.Spec, o.prop) {
						assumed["trusted contract (not proved): "+fi.FullName()] = true
					}
					continue
				}
				if !contractMentions(fi.Spec, o.prop) {
					continue
				}
				if o.only != "" && fi.FullName() != o.only && fi.Key != o.only {
					continue
				}
				if fi.Spec.ThoroughOnly && o.tier != "thorough" && o.only == "" {
					if fi.Spec.Derives != "" {
						thoroughDerives[fi.Spec.Derives] = fi.FullName()
					}
					continue
				}
				fis = append(fis, fi)
			}
			// contracts that no longer bind
			if pk.Spec != nil {
				for k, c := range pk.Spec.Contracts {
					if !c.Ext && pk.Funcs[k] == nil && contractMentions(c, o.prop) {
						genFailures = append(genFailures, fmt.Sprintf("%s.%s: contract no longer binds to a function (%s:%d)", pk.Short, k, c.File, c.Line))
					}
				}
			}
		}
		sort.Slice(fis, func(i, j int) bool { return fis[i].FullName() < fis[j].FullName() })
		for _, fi := range fis {
			insts, inames := typeInstances(fi)
			for ii, inst := range insts {
				for attempt := 0; ; attempt++ {
					restart := false
					w := newWorld()
					ex := &Exec{w: w, prog: prog, count: map[string]int{}, heapS: map[string]*Sort{}, heapGo: map[string]types.Type{}, typedKeys: map[string]bool{}, closures: map[string]*closureInfo{}, extUsed: map[string]bool{}}
					ex.topTsub = inst
				ex.activeProp = o.prop
					ex.instName = inames[ii]
					ex.wrap64 = fi.Spec.IntWidth64
					rep := funcReport{Name: fi.FullName() + inames[ii]}
					func() {
						defer func() {
							if r := recover(); r != nil {
								switch e := r.(type) {
								case restartVerify:
									restart = true
									if attempt > 8 {
										rep.Unsupported = "loop write sets do not stabilise"
										restart = false
									}
								case unsupportedErr:
									rep.Unsupported = e.msg
								case specFail:
									rep.Unsupported = "contract error: " + e.msg
								default:
									panic(r)
								}
							}
						}()
						ex.verifyFunc(fi)
					}()
					if restart {
						continue
					}
					rep.Paths = ex.nPaths
					if rep.Unsupported == "" && fi.Spec != nil {
						// an anchored clause that no path reached no longer binds to the code
						for _, an := range fi.Spec.Anchors {
							if ex.propActive(an.Props) && !ex.firedAnchors[an] {
								rep.Unsupported = fmt.Sprintf("anchored clause never reached (`%s %s[%d]` does not bind): %s", an.When, an.Callee, an.Ord, an.Src)
							}
						}
					}
					if rep.Unsupported != "" {
						genFailures = append(genFailures, rep.Name+": "+rep.Unsupported)
					}
					n := 0
					for _, ob := range ex.obls {
						if !hasProp(ob.Props, o.prop) {
							continue
						}
						n++
						all = append(all, ob)
						file := filepath.Join(vcDir, sanitizeFile(ob.Name)+".smt2")
						items = append(items, &solveItem{o: ob, w: w, file: file})
					}
					rep.Obligations = n
					reports = append(reports, rep)
					for k := range w.assumed {
						assumed[k] = true
					}
					break
				}
			}
		}
		// lemmas
		for _, pk := range prog.Pkgs {
			if pk.Spec == nil {
				continue
			}
			for _, lm := range pk.Spec.Lemmas {
				if !hasProp(lm.Props, o.prop) {
					continue
				}
				w := newWorld()
				ex := &Exec{w: w, prog: prog, count: map[string]int{}, heapS: map[string]*Sort{}, heapGo: map[string]types.Type{}, typedKeys: map[string]bool{}, closures: map[string]*closureInfo{}}
				obs, err := ex.lemmaObligations(pk, lm)
				if err != nil {
					genFailures = append(genFailures, pk.Short+".lemma."+lm.Name+": "+err.Error())
					continue
				}
				for _, ob := range obs {
					all = append(all, ob)
					items = append(items, &solveItem{o: ob, w: w, file: filepath.Join(vcDir, sanitizeFile(ob.Name)+".smt2")})
				}
				reports = append(reports, funcReport{Name: pk.Short + ".lemma." + lm.Name, Obligations: len(obs)})
			}
		}
	}
	solveAll(items, o.timeoutS, o.tier == "thorough", 6)

	// ---- report ----
	known := loadKnownFindings()
	discharged := 0
	byBackend := map[string]int{}
	solverTime := 0.0
	var failed []*Obligation
	for _, ob := range all {
		solverTime += ob.TimeS
		if ob.Status == "proved" {
			discharged++
			byBackend[strings.TrimSuffix(ob.Solver, " (cached)")]++
		} else {
			failed = append(failed, ob)
		}
	}
	violations := 0
	exit := 0
	replayDir := filepath.Join(o.outDir, "replay", o.prop)
	os.MkdirAll(replayDir, 0o755)
	for _, g := range genFailures {
		violations++
		exit = 1
		path := filepath.Join(replayDir, "gen-"+sanitizeFile(g)[:min(60, len(sanitizeFile(g)))]+".json")
		rep := map[string]interface{}{"property": o.prop, "obligation": "#gen", "reason": g}
		found := false
		if prog != nil {
			// "pkg.Func: message": the contract no longer fits the code; the contract's clauses can still
			// be evaluated on the real function
			if i := strings.Index(g, ": "); i > 0 {
				found = tryReplay(prog, o, &Obligation{Name: "#gen", Kind: "gen", Func: g[:i], Status: "gen"}, rep)
			}
		}
		writeJSON(path, rep)
		fmt.Printf("FAILED-OBLIGATION %s #gen: %s\n", o.prop, g)
		if found {
			fmt.Printf("VIOLATION property=%s replay=%s\n", o.prop, path)
		} else {
			fmt.Printf("VIOLATION property=%s replay=%s no-failing-input-found\n", o.prop, path)
		}
	}
	sort.Slice(failed, func(i, j int) bool { return failed[i].Name < failed[j].Name })
	reported := map[string]bool{}
	for _, ob := range failed {
		base := obligationBase(ob.Name)
		if kf := known.match(o.prop, base); kf != "" {
			if !reported["kf:"+base] {
				fmt.Printf("KNOWN-FINDING: property=%s obligation=%s %s\n", o.prop, base, kf)
				reported["kf:"+base] = true
			}
			continue
		}
		violations++
		exit = 1
		path := filepath.Join(replayDir, sanitizeFile(ob.Name)+".json")
		rep := map[string]interface{}{
			"property": o.prop, "obligation": ob.Name, "kind": ob.Kind, "function": ob.Func, "status": ob.Status,
			"clause": ob.Desc, "position": ob.Pos, "smt_file": ob.SMTFile, "solver_output": ob.Output,
		}
		found := false
		if prog != nil {
			found = tryReplay(prog, o, ob, rep)
		}
		writeJSON(path, rep)
		fmt.Printf("FAILED-OBLIGATION %s %s [%s] %s (%s)\n", o.prop, ob.Name, ob.Status, ob.Desc, ob.Pos)
		if found {
			fmt.Printf("VIOLATION property=%s replay=%s\n", o.prop, path)
		} else {
			fmt.Printf("VIOLATION property=%s replay=%s no-failing-input-found\n", o.prop, path)
		}
	}
	// ---- bounded stand-ins (real code, labelled bounded, not counted as proved) ----
	var standins []standinResult
	if o.only == "" {
		standins = runStandins(o)
	}
	for _, sr := range standins {
		name := sr.Name + "#bounded"
		switch sr.Status {
		case "held":
			fmt.Printf("BOUNDED-STANDIN %s %s held (%s)\n", o.prop, name, sr.Bound)
		default:
			if kf := known.match(o.prop, name); kf != "" && sr.Status == "failed" {
				fmt.Printf("KNOWN-FINDING: property=%s obligation=%s %s\n", o.prop, name, kf)
				continue
			}
			violations++
			exit = 1
			path := filepath.Join(replayDir, sanitizeFile(name)+".json")
			writeJSON(path, map[string]interface{}{"property": o.prop, "obligation": name, "kind": "bounded stand-in: in-package test run on the real code with go test -overlay", "status": sr.Status,
				"test_file": sr.File, "package_dir": sr.Dir, "bound": sr.Bound, "go_test_output": sr.Output,
				"rerun": "cd /repo && go test -overlay <overlay mapping " + sr.Dir + "/zz_verif_standin_test.go to " + sr.File + "> -vet=off -count=1 ./" + sr.Dir + "/"})
			fmt.Printf("FAILED-OBLIGATION %s %s [%s] bounded stand-in on the real code: %s\n", o.prop, name, sr.Status, strings.TrimSpace(firstFailLine(sr.Output)))
			if sr.Status == "failed" {
				fmt.Printf("VIOLATION property=%s replay=%s\n", o.prop, path)
			} else {
				fmt.Printf("VIOLATION property=%s replay=%s no-failing-input-found\n", o.prop, path)
			}
		}
	}
	// ---- thorough tier: the contracts of the replayable functions are evaluated on the real code
	// for small inputs (the generator of replay tests run on the tree as it is). BOUNDED, never
	// counted as proved: it ties the contract text to the running code independently of the
	// verifier's semantics of Go, and validates the spec-to-Go translation the replays rely on. ----
	var rtChecks []string
	if o.tier == "thorough" && o.only == "" && !o.canary && prog != nil {
		var keys []string
		byKey := map[string]*FuncInfo{}
		for _, pk := range prog.Pkgs {
			for _, f := range pk.Funcs {
				if f.Spec == nil || f.Spec.Ext || f.Decl == nil || f.Decl.Recv != nil || strings.HasPrefix(f.Key, "verifClient") || !hasProp(f.Spec.Props, o.prop) {
					continue
				}
				keys = append(keys, f.FullName())
				byKey[f.FullName()] = f
			}
		}
		sort.Strings(keys)
		for _, k := range keys {
			r := replayFunction(prog, o, byKey[k], nil, nil)
			name := k + "#contract-on-real-code"
			switch {
			case r.found:
				if kf := known.match(o.prop, name); kf != "" {
					fmt.Printf("KNOWN-FINDING: property=%s obligation=%s %s\n", o.prop, name, kf)
					continue
				}
				violations++
				exit = 1
				path := filepath.Join(replayDir, sanitizeFile(name)+".json")
				writeJSON(path, map[string]interface{}{"property": o.prop, "obligation": name, "kind": "bounded: the function's contract evaluated on the real code for small inputs", "failing_input": r.input, "violated_clause": r.clause, "replay_test": r.file, "replay_output": r.output})
				fmt.Printf("FAILED-OBLIGATION %s %s [failed] the real code violates a clause of its contract: %s\n", o.prop, name, truncate(r.output, 300))
				fmt.Printf("VIOLATION property=%s replay=%s\n", o.prop, path)
			case r.tried && strings.HasPrefix(r.reason, "no candidate input"):
				rtChecks = append(rtChecks, fmt.Sprintf("%s: contract held on the real code for %d small inputs (BOUNDED, not a proof)", k, r.nCands))
			}
		}
		if len(rtChecks) > 0 {
			fmt.Printf("BOUNDED-CONTRACT-CHECK %s: %d functions' contracts evaluated on the real code for small inputs, all held\n", o.prop, len(rtChecks))
		}
	}
	if o.verbose {
		for _, ob := range all {
			fmt.Printf("  %-8s %-60s %6.2fs %s\n", ob.Status, ob.Name, ob.TimeS, ob.Solver)
		}
	}
	fmt.Printf("gvc: property %s tier %s: %d functions, %d obligations, %d discharged, %d violations, %.1fs\n",
		o.prop, o.tier, len(reports), len(all), discharged, violations, time.Since(start).Seconds())
	if len(all) == 0 && len(genFailures) == 0 {
		fmt.Printf("FAILED-OBLIGATION %s #gen: no obligations were generated (vacuous check)\n", o.prop)
		path := filepath.Join(replayDir, "gen-no-obligations.json")
		writeJSON(path, map[string]interface{}{"property": o.prop, "obligation": "#gen", "reason": "no obligations generated"})
		fmt.Printf("VIOLATION property=%s replay=%s no-failing-input-found\n", o.prop, path)
		exit = 1
		violations++
	}
	if o.only != "" || o.canary {
		return exit
	}
	// ---- must-fail canaries (thorough tier): the seeded changes this check is known to report are
	// applied to scratch copies of the current tree; each must still be reported ----
	canaries := map[string]string{}
	canaryFail := false
	if o.tier == "thorough" {
		canaries, canaryFail = runCanaries(o)
	}
	// ---- evidence ----
	sort.Slice(all, func(i, j int) bool { return all[i].TimeS > all[j].TimeS })
	var slowest []map[string]interface{}
	for i := 0; i < len(all) && i < 5; i++ {
		slowest = append(slowest, map[string]interface{}{"obligation": all[i].Name, "time_s": round2(all[i].TimeS), "solver": all[i].Solver})
	}
	var samples []map[string]interface{}
	kinds := map[string]bool{}
	for _, ob := range all {
		if len(samples) >= 8 {
			break
		}
		k := ob.Func + "/" + strings.SplitN(ob.Kind, ".", 2)[0]
		if kinds[k] && len(samples) >= 3 {
			continue
		}
		kinds[k] = true
		samples = append(samples, map[string]interface{}{"obligation": ob.Name, "clause": ob.Desc, "status": ob.Status, "solver": ob.Solver, "smt_file": ob.SMTFile})
	}
	var fnames []string
	var unsupportedFns []string
	for _, r := range reports {
		fnames = append(fnames, fmt.Sprintf("%s (%d obligations)", r.Name, r.Obligations))
		if r.Unsupported != "" {
			unsupportedFns = append(unsupportedFns, r.Name+": "+r.Unsupported)
		}
	}
	meta := loadMeta(o.prop)
	// trusted postconditions that a lemma client of this run derives from the proved ones
	derived := map[string]string{}
	if prog != nil {
		for _, pk := range prog.Pkgs {
			for _, fi := range pk.Funcs {
				if fi.Spec == nil || fi.Spec.Derives == "" || !contractMentions(fi.Spec, o.prop) {
					continue
				}
				ok, n := true, 0
				for _, ob := range all {
					if ob.Func == fi.FullName() {
						n++
						if ob.Status != "proved" {
							ok = false
						}
					}
				}
				if ok && n > 0 {
					derived[fi.Spec.Derives] = fi.FullName()
				}
			}
		}
	}
	var assumedList []string
	for k := range assumed {
		for callee, client := range derived {
			if strings.HasPrefix(k, "trusted postcondition (NOT proved) of ") && strings.Contains(k, callee+":") {
				k = strings.Replace(k, "trusted postcondition (NOT proved) of ", "postcondition used on trust at call sites but DERIVED from the proved postconditions by lemma client "+client+" (all its obligations discharged in this run): ", 1)
			}
		}
		for callee, client := range thoroughDerives {
			if strings.HasPrefix(k, "trusted postcondition (NOT proved) of ") && strings.Contains(k, callee+":") {
				k = strings.Replace(k, "trusted postcondition (NOT proved) of ", "trusted postcondition (NOT proved in the quick tier; derived from the proved postconditions by lemma client "+client+", which is run in the thorough tier) of ", 1)
			}
		}
		assumedList = append(assumedList, k)
	}
	sort.Strings(assumedList)
	assumptions := append([]string{}, meta.Assumptions...)
	assumptions = append(assumptions, assumedList...)
	cov := map[string]interface{}{
		"obligations":              len(all),
		"discharged":               discharged,
		"checker_cmd":              fmt.Sprintf("/verif/bin/gvc check --property %s --tier %s", o.prop, o.tier),
		"trusted_base":             meta.TrustedBase,
		"samples":                  samples,
		"functions_under_contract": fnames,
		"by_backend":               byBackend,
		"solver_time_s":            round2(solverTime),
		"slowest":                  slowest,
		"assume_ext":               assumedList,
		"unsupported_functions":    unsupportedFns,
		"not_covered_clauses":      meta.NotCovered,
		"bounded_standins":         append(append([]string{}, meta.BoundedStandins...), standinSummaries(standins)...),
		"bounded_standin_runs":     standins,
		"bounded_contract_checks_on_real_code": rtChecks,
		"per_solver_timeout_s":     o.timeoutS,
		"mustfail_canaries":        canaries,
		"rule":                     "one obligation per contract clause, safety condition, loop-invariant step and frame condition on each symbolic path of each function under contract; every obligation is a closed formula valid for all inputs",
	}
	ev := map[string]interface{}{
		"property_id": o.prop,
		"tier":        o.tier,
		"seed":        seed,
		"level":       "proof",
		"coverage":    cov,
		"assumptions": assumptions,
		"wall_s":      round2(time.Since(start).Seconds()),
		"violations":  violations,
	}
	os.MkdirAll(filepath.Join(verifDir, "evidence"), 0o755)
	writeJSON(filepath.Join(verifDir, "evidence", o.prop+".json"), ev)
	if canaryFail && exit == 0 {
		// the property held on the tree, but the checker failed its own must-fail test: say so
		// (no VIOLATION line: this is a defect of the check, not of the repository)
		return 2
	}
	return exit
}

// runCanaries applies every seeded change of /verif/seeded that this property's check is recorded to
// report (meta.json caught_by) to a scratch copy of the current tree and re-runs the quick check on
// it. A canary that applies and is not reported is a checker failure.
func runCanaries(o *checkOpts) (map[string]string, bool) {
	out := map[string]string{}
	bad := false
	dirs, _ := filepath.Glob(filepath.Join(verifDir, "seeded", "*", "meta.json"))
	sort.Strings(dirs)
	for _, mf := range dirs {
		data, err := os.ReadFile(mf)
		if err != nil {
			continue
		}
		var meta struct {
			ID       string   `json:"id"`
			CaughtBy []string `json:"caught_by"`
		}
		if json.Unmarshal(data, &meta) != nil || !hasProp(meta.CaughtBy, o.prop) {
			continue
		}
		patch := filepath.Join(filepath.Dir(mf), "patch.diff")
		tmp, err := os.MkdirTemp("", "gvc-canary-")
		if err != nil {
			out[meta.ID] = "skipped: " + err.Error()
			continue
		}
		func() {
			defer os.RemoveAll(tmp)
			src := filepath.Join(tmp, "repo")
			if b, err := exec.Command("rsync", "-a", "--exclude", ".git", repoDir+"/", src+"/").CombinedOutput(); err != nil {
				out[meta.ID] = "skipped: copy failed: " + truncate(string(b), 100)
				return
			}
			if b, err := exec.Command("patch", "-p1", "-s", "-f", "-d", src, "-i", patch).CombinedOutput(); err != nil {
				out[meta.ID] = "skipped: patch does not apply to the current tree: " + truncate(strings.TrimSpace(string(b)), 80)
				return
			}
			cmd := exec.Command(os.Args[0], "check", "--property", o.prop, "--tier", "quick", "--repo", src, "--out", filepath.Join(tmp, "out"), "--canary")
			b, _ := cmd.CombinedOutput()
			first := ""
			for _, l := range strings.Split(string(b), "\n") {
				if strings.HasPrefix(l, "FAILED-OBLIGATION") {
					first = truncate(strings.TrimPrefix(l, "FAILED-OBLIGATION "+o.prop+" "), 120)
					break
				}
			}
			if cmd.ProcessState != nil && cmd.ProcessState.ExitCode() == 1 && first != "" {
				out[meta.ID] = "reported: " + first
			} else {
				out[meta.ID] = "NOT REPORTED"
				bad = true
				fmt.Printf("CHECKER-SELFTEST-FAILED property=%s canary=%s: a seeded change this check used to report is no longer reported\n", o.prop, meta.ID)
			}
		}()
	}
	return out, bad
}

func standinSummaries(rs []standinResult) []string {
	var out []string
	for _, r := range rs {
		out = append(out, fmt.Sprintf("%s: BOUNDED (not proved) - %s - %s on this run", r.Name, r.Bound, r.Status))
	}
	return out
}

func firstFailLine(s string) string {
	for _, l := range strings.Split(s, "\n") {
		if strings.Contains(l, "_test.go:") {
			return l
		}
	}
	if len(s) > 200 {
		return s[:200]
	}
	return s
}

func round2(f float64) float64 { return float64(int(f*100+0.5)) / 100 }

var fileSan = regexp.MustCompile(`[^A-Za-z0-9_.#\[\]-]+`)

func sanitizeFile(s string) string { return fileSan.ReplaceAllString(s, "_") }

// obligationBase strips the path ordinal: pkg.F#post0[3] -> pkg.F#post0
func obligationBase(name string) string {
	if i := strings.LastIndex(name, "["); i >= 0 {
		return name[:i]
	}
	return name
}

func writeJSON(path string, v interface{}) {
	data, _ := json.MarshalIndent(v, "", " ")
	os.MkdirAll(filepath.Dir(path), 0o755)
	os.WriteFile(path, append(data, '\n'), 0o644)
}

type propMeta struct {
	TrustedBase     []string `json:"trusted_base"`
	Assumptions     []string `json:"assumptions"`
	NotCovered      []string `json:"not_covered_clauses"`
	BoundedStandins []string `json:"bounded_standins"`
}

func loadMeta(prop string) propMeta {
	var all map[string]propMeta
	data, err := os.ReadFile(filepath.Join(verifDir, "meta", "props.json"))
	m := propMeta{}
	if err == nil {
		if json.Unmarshal(data, &all) == nil {
			if c, ok := all["common"]; ok {
				m.TrustedBase = append(m.TrustedBase, c.TrustedBase...)
				m.Assumptions = append(m.Assumptions, c.Assumptions...)
			}
			if p, ok := all[prop]; ok {
				m.TrustedBase = append(m.TrustedBase, p.TrustedBase...)
				m.Assumptions = append(m.Assumptions, p.Assumptions...)
				m.NotCovered = p.NotCovered
				m.BoundedStandins = p.BoundedStandins
			}
		}
	}
	if m.TrustedBase == nil {
		m.TrustedBase = []string{"gvc VC generator", "z3/cvc5"}
	}
	if m.NotCovered == nil {
		m.NotCovered = []string{}
	}
	if m.BoundedStandins == nil {
		m.BoundedStandins = []string{}
	}
	return m
}

type knownFindings struct {
	entries []struct{ prop, obl, text string }
}

func loadKnownFindings() *knownFindings {
	kf := &knownFindings{}
	data, err := os.ReadFile(filepath.Join(verifDir, "known_findings.txt"))
	if err != nil {
		return kf
	}
	for _, l := range strings.Split(string(data), "\n") {
		l = strings.TrimSpace(l)
		if !strings.HasPrefix(l, "finding:") {
			continue // "fixed:" lines suppress nothing
		}
		var prop, obl string
		for _, f := range strings.Fields(l) {
			if strings.HasPrefix(f, "property=") {
				prop = strings.TrimPrefix(f, "property=")
			}
			if strings.HasPrefix(f, "obligation=") {
				obl = strings.TrimPrefix(f, "obligation=")
			}
		}
		if prop != "" && obl != "" {
			kf.entries = append(kf.entries, struct{ prop, obl, text string }{prop, obl, l})
		}
	}
	return kf
}

func (k *knownFindings) match(prop, oblBase string) string {
	for _, e := range k.entries {
		if e.prop == prop && e.obl == oblBase {
			return e.text
		}
	}
	return ""
}

func min(a, b int) int {
	if a < b {
		return a
	}
	return b
}
