package main

// state.go: symbolic state, frames, obligations.

import (
	"fmt"
	"go/ast"
	"go/token"
	"go/types"
	"strings"
)

type FuncInfo struct {
	Pkg   *Package
	Decl  *ast.FuncDecl
	Obj   *types.Func
	Key   string // "Recv.Name" or "Name"
	Spec  *Contract
	loops []ast.Stmt // loops in source order
	annots map[ast.Stmt][]bodyAnnot
}

func (f *FuncInfo) FullName() string { return f.Pkg.Short + "." + f.Key }

var repoDir = "/repo"

type Frame struct {
	parent   *Frame
	fi       *FuncInfo
	info     *types.Info
	tsub     map[*types.TypeParam]types.Type
	vars     map[types.Object]Val
	names    map[string]types.Object
	boxed    map[types.Object]bool // local whose address was taken: Val is the Ref of its box
	onReturn func(st *State, results []Val)
	onPanic  func(st *State)
	results  []types.Object // named results (or nil)
	defers   []func(st *State, k func(*State))
	loops    []*loopCtx
	depth    int
	closure  *Frame // lexically enclosing frame for function literals
	litSig    *types.Signature
	panicDesc string
	ghost     map[string]Val
	iterSnap  map[int]*State // per loop ordinal: state at the start of the current iteration
}

type loopCtx struct {
	label      string
	onBreak    func(*State)
	onContinue func(*State)
}

type State struct {
	heap    map[string]string
	assumes []string
	frame   *Frame
	// ghost/spec locals introduced by in-body annotations
}

func (st *State) fork() *State {
	n := &State{heap: make(map[string]string, len(st.heap)), assumes: st.assumes[:len(st.assumes):len(st.assumes)]}
	for k, v := range st.heap {
		n.heap[k] = v
	}
	n.frame = st.frame.clone()
	return n
}

// snapshot copies heap only (used for old()).
func (st *State) snapshot() *State {
	n := &State{heap: make(map[string]string, len(st.heap)), assumes: st.assumes[:len(st.assumes):len(st.assumes)], frame: st.frame}
	for k, v := range st.heap {
		n.heap[k] = v
	}
	return n
}

func (f *Frame) clone() *Frame {
	if f == nil {
		return nil
	}
	n := *f
	n.parent = f.parent.clone()
	if f.closure != nil {
		// the lexical parent must be the cloned instance when it is on the stack
		n.closure = f.closure.cloneLexical(f, &n)
	}
	n.vars = make(map[types.Object]Val, len(f.vars))
	for k, v := range f.vars {
		n.vars[k] = v
	}
	n.names = make(map[string]types.Object, len(f.names))
	for k, v := range f.names {
		n.names[k] = v
	}
	n.boxed = make(map[types.Object]bool, len(f.boxed))
	for k, v := range f.boxed {
		n.boxed[k] = v
	}
	if f.ghost != nil {
		n.ghost = make(map[string]Val, len(f.ghost))
		for k, v := range f.ghost {
			n.ghost[k] = v
		}
	}
	n.defers = append([]func(*State, func(*State)){}, f.defers...)
	n.loops = append([]*loopCtx{}, f.loops...)
	return &n
}

func (f *Frame) cloneLexical(orig, cl *Frame) *Frame {
	// find f among the parents of orig; return the corresponding clone
	o, c := orig.parent, cl.parent
	for o != nil {
		if o == f {
			return c
		}
		o, c = o.parent, c.parent
	}
	return f.clone()
}

func (st *State) assume(t string) {
	if t == "true" {
		return
	}
	st.assumes = append(st.assumes, t)
}

func (f *Frame) lookupVar(o types.Object) (Val, *Frame, bool) {
	for fr := f; fr != nil; fr = fr.closure {
		if v, ok := fr.vars[o]; ok {
			return v, fr, true
		}
	}
	return Val{}, nil, false
}

func (f *Frame) lookupName(n string) (types.Object, Val, bool) {
	for fr := f; fr != nil; fr = fr.closure {
		if o, ok := fr.names[n]; ok {
			return o, fr.vars[o], true
		}
	}
	return nil, Val{}, false
}

type Obligation struct {
	Name    string
	Kind    string
	Func    string
	Props   []string
	Assumes []string
	Goal    string
	Desc    string
	Pos     string
	NDecls  int
	// results
	Status  string // proved, failed, unknown
	Solver  string
	TimeS   float64
	Output  string
	SMTFile string
	Vacuity bool // expected NOT provable (cover)
	BudgetS int // per-solver time limit override from the contract (0 = tier default)
	SplitFirst bool
	CaseTerms []string // reference-valued entry terms (parameters and their pointer fields) for case splits
}

type Exec struct {
	w       *World
	prog    *Program
	top     *FuncInfo
	obls    []*Obligation
	count   map[string]int
	entry   *State
	heapS   map[string]*Sort // sort of each heap key's array
	topEnvBind map[string]Val
	inlineDepth int
	nPaths  int
	closures map[string]*closureInfo
	bounded  int
	curProps []string
	extUsed  map[string]bool
	panicSeen bool
	fnObjs    map[string]*types.Func
	heapGo    map[string]types.Type
	ixSeen    map[string]bool
	typedKeys map[string]bool
	topTsub   map[*types.TypeParam]types.Type
	instName  string
	wrap64    bool
	allowHeapClosure bool
	anchorResults []Val
	anchorArgs    []Val
	activeProp    string // the property being checked (clauses labelled for other properties only are inactive)
	closureTop    bool // a function literal of the top function is being verified on its own (anchors fire inside it)
	firedAnchors  map[*Anchored]bool // anchored clauses that were reached on some path
	lastWitness   map[string]Val // ghost witnesses of the contract call just made (for after-call anchors)
	inGoal    int
	goalIx    []string
	topTargets []modTarget
}

type closureInfo struct {
	lit   *ast.FuncLit
	frame *Frame
	info  *types.Info
	fi    *FuncInfo
}

func (ex *Exec) posString(p token.Pos) string {
	if !p.IsValid() {
		return ""
	}
	ps := ex.prog.Fset.Position(p)
	return fmt.Sprintf("%s:%d", strings.TrimPrefix(ps.Filename, repoDir+"/"), ps.Line)
}

// oblige records a proof obligation: assumes(st) ==> goal.
func (ex *Exec) oblige(st *State, kind string, props []string, goal, desc string, pos token.Pos) {
	if goal == "true" {
		// still counted: trivially discharged
	}
	ex.count[kind]++
	name := fmt.Sprintf("%s%s#%s[%d]", ex.top.FullName(), ex.instName, kind, ex.count[kind]-1)
	if props == nil {
		props = ex.curProps
	}
	as := st.assumes[:len(st.assumes):len(st.assumes)]
	if len(ex.goalIx) > 0 {
		seen := map[string]bool{}
		for _, g := range ex.goalIx {
			if !seen[g] {
				seen[g] = true
				as = append(as, g)
			}
		}
		ex.goalIx = nil
	}
	o := &Obligation{Name: name, Kind: kind, Func: ex.top.FullName(), Props: props, Assumes: as, Goal: goal, Desc: desc, Pos: ex.posString(pos)}
	o.CaseTerms = ex.caseTerms()
	if ex.top != nil && ex.top.Spec != nil {
		o.BudgetS = ex.top.Spec.BudgetS
		o.SplitFirst = ex.top.Spec.SplitFirst
	}
	ex.obls = append(ex.obls, o)
}

// caseTerms: the reference-valued parameters of the function under verification and their
// reference-valued fields in the entry heap; a goal about "every object x" that the solvers cannot
// decide is retried once per case x == term (and once with x different from all of them).
func (ex *Exec) caseTerms() []string {
	var ps []string
	for _, k := range sortedKeys(ex.topEnvBind) {
		if v := ex.topEnvBind[k]; v.S != nil && v.S.Kind == KRef {
			ps = append(ps, v.T)
		}
	}
	out := append([]string{}, ps...)
	if ex.entry != nil {
		for _, key := range sortedKeys(ex.entry.heap) {
			if !strings.HasPrefix(key, "f:") {
				continue
			}
			if s := ex.heapS[key]; s == nil || s.Elem == nil || s.Elem.Kind != KRef {
				continue
			}
			for _, p := range ps {
				if len(out) < 10 {
					out = append(out, sSel(ex.entry.heap[key], p))
				}
			}
		}
	}
	return out
}

// heap access helpers

func (ex *Exec) heapGet(st *State, key string, s *Sort, elemGo ...types.Type) string {
	if len(elemGo) > 0 && elemGo[0] != nil && ex.heapGo[key] == nil {
		ex.heapGo[key] = elemGo[0]
		// the entry symbol may already exist without its typing axiom: add it now
		n0 := sym("H0_" + key)
		if ex.w.declared[n0] && !ex.typedKeys[key] {
			if ax := ex.heapTyping(n0, key, s, sym("H0_alloc"), sym("H0_arralloc")); ax != "" {
				ex.w.declConst(sym("H0_alloc"), ex.w.setSort(sRef))
				ex.w.declConst(sym("H0_arralloc"), ex.w.setSort(sArrId))
				ex.w.axioms = append(ex.w.axioms, ax)
				ex.w.weak[ax] = true
				ex.typedKeys[key] = true
			}
		}
	}
	if v, ok := st.heap[key]; ok {
		return v
	}
	// first use: a symbol shared by all paths (the entry value)
	n := sym("H0_" + key)
	if !ex.w.declared[n] {
		ex.w.declConst(n, s)
		ex.heapS[key] = s
		// Go's own typing invariant of the entry heap: what allocated objects point to is allocated
		if ax := ex.heapTyping(n, key, s, sym("H0_alloc"), sym("H0_arralloc")); ax != "" {
			ex.w.declConst(sym("H0_alloc"), ex.w.setSort(sRef))
			ex.w.declConst(sym("H0_arralloc"), ex.w.setSort(sArrId))
			ex.w.axioms = append(ex.w.axioms, ax)
			ex.w.weak[ax] = true
			ex.typedKeys[key] = true
		}
	}
	st.heap[key] = n
	if ex.entry != nil {
		if _, ok := ex.entry.heap[key]; !ok {
			ex.entry.heap[key] = n
		}
	}
	return n
}

// heapTyping: forall allocated index r: the value stored at arr[r] satisfies its type invariant
// with respect to the given allocation sets.
func (ex *Exec) heapTyping(arr, key string, s *Sort, alloc, arralloc string) string {
	if key == "alloc" || key == "arralloc" || s.Idx == nil || s.Elem == nil {
		return ""
	}
	gt := ex.heapGo[key]
	if strings.HasPrefix(key, "mem:") {
		// rows of element memory
		es := s.Elem.Elem
		if es == nil {
			return ""
		}
		inv := ex.typeInvWith(alloc, arralloc, Val{T: sSel(sSel(arr, "a"), "k"), S: es, Go: gt})
		if inv == "true" {
			return ""
		}
		return fmt.Sprintf("(forall ((a ArrId) (k Int)) (! (=> (select %s a) %s) :pattern ((select (select %s a) k))))", arralloc, inv, arr)
	}
	if s.Idx.Kind != KRef {
		return ""
	}
	inv := ex.typeInvWith(alloc, arralloc, Val{T: sSel(arr, "r"), S: s.Elem, Go: gt})
	if inv == "true" {
		return ""
	}
	return fmt.Sprintf("(forall ((r Ref)) (! (=> (select %s r) %s) :pattern ((select %s r))))", alloc, inv, arr)
}

func (ex *Exec) heapSet(st *State, key string, s *Sort, body string) {
	ex.heapGet(st, key, s)
	st.heap[key] = ex.w.define("H_"+key, s, body)
}

func (ex *Exec) heapHavoc(st *State, key string, s *Sort) string {
	ex.heapGet(st, key, s)
	n := ex.w.freshConst("H_"+key, s)
	st.heap[key] = n
	return n
}

func (ex *Exec) allocArr(st *State) string {
	return ex.heapGet(st, "alloc", ex.w.setSort(sRef))
}
func (ex *Exec) arrAllocArr(st *State) string {
	return ex.heapGet(st, "arralloc", ex.w.setSort(sArrId))
}

func (ex *Exec) memKey(elem *Sort) string { return "mem:" + elem.Name }

func (ex *Exec) mem(st *State, elem *Sort) string {
	return ex.heapGet(st, ex.memKey(elem), ex.w.memSort(elem))
}

// newRef allocates a fresh object reference.
func (ex *Exec) newRef(st *State, base string) string {
	r := ex.w.freshConst(base, sRef)
	al := ex.allocArr(st)
	st.assume(sNot(sEq(r, "nil")))
	st.assume(sNot(sSel(al, r)))
	ex.heapSet(st, "alloc", ex.w.setSort(sRef), sStore(al, r, "true"))
	return r
}

// allocSub marks the sub-objects (struct-typed fields stored by value) of a freshly allocated object
// as allocated together with it.
func (ex *Exec) allocSub(st *State, ref string, ty types.Type) {
	n, stT, _ := structOf(ty)
	if stT == nil {
		return
	}
	pt := types.NewPointer(namedOr(n, stT))
	for i := 0; i < stT.NumFields(); i++ {
		ft := ex.fieldType(pt, stT.Field(i))
		if !ex.nestedStruct(ft) {
			continue
		}
		sub := ex.fieldAddr(ref, pt, stT.Field(i).Name())
		al := ex.allocArr(st)
		st.assume(sNot(sSel(al, sub)))
		ex.heapSet(st, "alloc", ex.w.setSort(sRef), sStore(al, sub, "true"))
		ex.allocSub(st, sub, ft)
	}
}

func (ex *Exec) newArr(st *State, base string) string {
	a := ex.w.freshConst(base, sArrId)
	al := ex.arrAllocArr(st)
	st.assume(sNot(sEq(a, "nilarr")))
	st.assume(sNot(sSel(al, a)))
	ex.heapSet(st, "arralloc", ex.w.setSort(sArrId), sStore(al, a, "true"))
	return a
}

// typeInv returns the implicit invariant of a value of a sort in state st (assumed when a value
// is read from a parameter, the heap or a call result).
func (ex *Exec) typeInv(st *State, v Val) string {
	return ex.typeInvWith(ex.allocArr(st), ex.arrAllocArr(st), v)
}

func refLike(t types.Type) bool {
	if t == nil {
		return false
	}
	if _, isTP := types.Unalias(t).(*types.TypeParam); isTP {
		return false
	}
	switch types.Unalias(t).Underlying().(type) {
	case *types.Pointer, *types.Map, *types.Chan, *types.Interface, *types.Signature:
		// interface and function values are references to objects that exist (boxed values and
		// package-level functions are regarded as objects that have always existed)
		return true
	}
	return false
}

func (ex *Exec) typeInvWith(alloc, arralloc string, v Val) string {
	switch v.S.Kind {
	case KInt:
		if lo, hi, ok := ex.intRange(v.Go); ok {
			return fmt.Sprintf("(and (<= %s %s) (<= %s %s))", lo, v.T, v.T, hi)
		}
		return "true"
	case KRef:
		if refLike(v.Go) {
			return sOr(sEq(v.T, "nil"), sSel(alloc, v.T))
		}
		return "true"
	case KSlice:
		t := v.T
		return sAnd(
			fmt.Sprintf("(<= 0 (s_off %s))", t),
			fmt.Sprintf("(<= 0 (s_len %s))", t),
			fmt.Sprintf("(<= (s_len %s) (s_cap %s))", t, t),
			fmt.Sprintf("(=> (= (s_arr %s) nilarr) (and (= (s_len %s) 0) (= (s_cap %s) 0) (= (s_off %s) 0)))", t, t, t, t),
			fmt.Sprintf("(=> (not (= (s_arr %s) nilarr)) (select %s (s_arr %s)))", t, arralloc, t),
		)
	case KStruct:
		var cs []string
		for _, f := range v.S.Fields {
			cs = append(cs, ex.typeInvWith(alloc, arralloc, Val{T: sApp(f.Sel, v.T), S: f.S, Go: f.Go}))
		}
		return sAnd(cs...)
	}
	return "true"
}

// ixFn: uninterpreted predicate that occurs only in quantifier patterns and in positive ground
// facts (ix e) for index expressions e; it cannot affect satisfiability and only guides
// instantiation.
func (ex *Exec) ixFn() string {
	n := sym("ix")
	ex.w.declFun(n, []*Sort{sInt}, sBool)
	return n
}

func (ex *Exec) noteIx(t string) {
	if ex.bounded > 0 || strings.Contains(t, "q_") || strings.Contains(t, "lam_") || strings.Contains(t, "cl_") {
		return
	}
	if ex.inGoal > 0 {
		// index expressions of a goal (they mention its skolem constants) belong to that obligation
		ex.goalIx = append(ex.goalIx, "("+ex.ixFn()+" "+t+")")
		return
	}
	if ex.ixSeen == nil {
		ex.ixSeen = map[string]bool{}
	}
	if ex.ixSeen[t] {
		return
	}
	ex.ixSeen[t] = true
	ex.w.axioms = append(ex.w.axioms, "("+ex.ixFn()+" "+t+")")
}

// zeroRow: an array whose every element is the zero value of the element sort (a declared
// constant with a defining axiom: cvc5 rejects `as const` arrays over uninterpreted values).
func (ex *Exec) zeroRow(es *Sort) string {
	n := sym("zerorow_" + strings.Trim(es.Name, "|"))
	if !ex.w.declared[n] {
		ex.w.declConst(n, ex.w.seqSort(es))
		ex.w.axioms = append(ex.w.axioms, fmt.Sprintf("(forall ((k Int)) (! (= (select %s k) %s) :pattern ((select %s k))))", n, ex.w.zero(es), n))
	}
	return n
}

// intRange: value range of narrow integer types (and of int/int64 when the function asks for
// exact 64-bit arithmetic with the `intwidth 64` directive).
func (ex *Exec) intRange(t types.Type) (string, string, bool) {
	if t == nil {
		return "", "", false
	}
	b, ok := types.Unalias(t).Underlying().(*types.Basic)
	if !ok {
		return "", "", false
	}
	switch b.Kind() {
	case types.Int8:
		return "(- 128)", "127", true
	case types.Int16:
		return "(- 32768)", "32767", true
	case types.Int32:
		return "(- 2147483648)", "2147483647", true
	case types.Uint8:
		return "0", "255", true
	case types.Uint16:
		return "0", "65535", true
	case types.Uint32:
		return "0", "4294967295", true
	case types.Uint, types.Uint64, types.Uintptr:
		return "0", "18446744073709551615", true
	case types.Int, types.Int64:
		if ex.wrap64 {
			return "(- 9223372036854775808)", "9223372036854775807", true
		}
	}
	return "", "", false
}
