package main

// maps.go: Go maps as (dom, val, card) heap arrays; misc small models and stubs.

import (
	"fmt"
	"go/ast"
	"go/constant"
	"go/token"
	"go/types"
	"strings"
)

func constantInt(v constant.Value) (int64, bool) {
	if v == nil || v.Kind() != constant.Int {
		return 0, false
	}
	return constant.Int64Val(v)
}

type mapKeyInfo struct {
	key  string
	sort *Sort
}

func (ex *Exec) mapSorts(mt *types.Map) (ks, vs *Sort, tag string) {
	ks, vs = ex.w.sortOf(mt.Key()), ex.w.sortOf(mt.Elem())
	tag = strings.Trim(ks.Name, "|") + ":" + strings.Trim(vs.Name, "|")
	return
}

func (ex *Exec) mapKeysT(mt *types.Map) []mapKeyInfo {
	ks, vs, tag := ex.mapSorts(mt)
	return []mapKeyInfo{
		{"mapdom:" + tag, ex.w.mapGSort(sRef, ex.w.setSort(ks))},
		{"mapval:" + tag, ex.w.mapGSort(sRef, ex.w.mapGSort(ks, vs))},
		{"mapcard:" + tag, ex.w.mapGSort(sRef, sInt)},
	}
}

func (ex *Exec) mapKeys(st *State, mt *types.Map) []mapKeyInfo {
	ki := ex.mapKeysT(mt)
	for _, k := range ki {
		ex.heapGet(st, k.key, k.sort)
	}
	return ki
}

func (ex *Exec) newMap(st *State, ty types.Type) Val {
	mt := types.Unalias(ty).Underlying().(*types.Map)
	ks, vs, _ := ex.mapSorts(mt)
	ki := ex.mapKeys(st, mt)
	r := ex.newRef(st, "map")
	ex.heapSet(st, ki[0].key, ki[0].sort, sStore(st.heap[ki[0].key], r, fmt.Sprintf("((as const (Array %s Bool)) false)", ks.Name)))
	ex.heapSet(st, ki[1].key, ki[1].sort, sStore(st.heap[ki[1].key], r, fmt.Sprintf("((as const (Array %s %s)) %s)", ks.Name, vs.Name, ex.w.zero(vs))))
	ex.heapSet(st, ki[2].key, ki[2].sort, sStore(st.heap[ki[2].key], r, "0"))
	return Val{T: r, S: sRef, Go: ty}
}

func (ex *Exec) mapHasPure(st *State, m, key Val, mt *types.Map) Val {
	ki := ex.mapKeys(st, mt)
	return Val{T: sSel(sSel(st.heap[ki[0].key], m.T), key.T), S: sBool, Go: types.Typ[types.Bool]}
}

func (ex *Exec) mapValPure(st *State, m, key Val, mt *types.Map) Val {
	ki := ex.mapKeys(st, mt)
	_, vs, _ := ex.mapSorts(mt)
	return Val{T: sSel(sSel(st.heap[ki[1].key], m.T), key.T), S: vs, Go: mt.Elem()}
}

func (ex *Exec) mapLenPure(st *State, m Val) Val {
	mt, _ := goMapType(m.Go)
	ki := ex.mapKeys(st, mt)
	return Val{T: sSel(st.heap[ki[2].key], m.T), S: sInt, Go: types.Typ[types.Int]}
}

func (ex *Exec) mapLen(st *State, m Val) Val {
	v := ex.mapLenPure(st, m)
	st.assume(fmt.Sprintf("(>= %s 0)", v.T))
	return v
}

func (ex *Exec) mapLoad(st *State, m, key Val) (Val, Val) {
	mt, _ := goMapType(m.Go)
	_, vs, _ := ex.mapSorts(mt)
	has := ex.mapHasPure(st, m, key, mt)
	// the nil map is empty
	hasT := sAnd(sNot(sEq(m.T, "nil")), has.T)
	val := ex.mapValPure(st, m, key, mt)
	v := Val{T: sIte(hasT, val.T, ex.w.zero(vs)), S: vs, Go: mt.Elem()}
	if inv := ex.typeInv(st, v); inv != "true" {
		st.assume(inv)
	}
	return v, Val{T: hasT, S: sBool, Go: types.Typ[types.Bool]}
}

func (ex *Exec) mapStore(st *State, m, key, v Val, pos token.Pos, k func(*State)) {
	mt, _ := goMapType(m.Go)
	ex.safety(st, "safe.nilmap", sNot(sEq(m.T, "nil")), "assignment to entry in nil map", pos, func(st *State) {
		ki := ex.mapKeys(st, mt)
		dom, val, card := st.heap[ki[0].key], st.heap[ki[1].key], st.heap[ki[2].key]
		had := sSel(sSel(dom, m.T), key.T)
		ex.heapSet(st, ki[2].key, ki[2].sort, sStore(card, m.T, sIte(had, sSel(card, m.T), fmt.Sprintf("(+ %s 1)", sSel(card, m.T)))))
		ex.heapSet(st, ki[0].key, ki[0].sort, sStore(dom, m.T, sStore(sSel(dom, m.T), key.T, "true")))
		ex.heapSet(st, ki[1].key, ki[1].sort, sStore(val, m.T, sStore(sSel(val, m.T), key.T, v.T)))
		k(st)
	})
}

func (ex *Exec) mapDelete(st *State, m, key Val) {
	mt, _ := goMapType(m.Go)
	ki := ex.mapKeys(st, mt)
	dom, card := st.heap[ki[0].key], st.heap[ki[2].key]
	had := sAnd(sNot(sEq(m.T, "nil")), sSel(sSel(dom, m.T), key.T))
	ex.heapSet(st, ki[2].key, ki[2].sort, sStore(card, m.T, sIte(had, fmt.Sprintf("(- %s 1)", sSel(card, m.T)), sSel(card, m.T))))
	ex.heapSet(st, ki[0].key, ki[0].sort, sStore(dom, m.T, sStore(sSel(dom, m.T), key.T, "false")))
}

// rangeMap: `for k, v := range m` visits every key present at loop entry exactly once in an
// arbitrary order (the body must not add keys; deleting is allowed by Go but not modelled).
// A ghost set `visited` is available to invariants under the name  visited<ordinal>.
func (ex *Exec) rangeMap(st *State, s *ast.RangeStmt, label string, k func(*State)) {
	fr := st.frame
	ex.expr(st, s.X, func(st *State, m Val) {
		fr := st.frame
		mt, _ := goMapType(m.Go)
		ks, _, _ := ex.mapSorts(mt)
		ord := ex.loopOrdinal(fr, s)
		visObj := types.NewVar(s.Pos(), nil, fmt.Sprintf("visited%d", ord), nil)
		visSort := ex.w.setSort(ks)
		fr.vars[visObj] = Val{T: fmt.Sprintf("((as const (Array %s Bool)) false)", ks.Name), S: visSort}
		fr.names[visObj.Name()] = visObj
		ki := ex.mapKeys(st, mt)
		domSel := sSel(st.heap[ki[0].key], m.T) // the map's key set at loop entry (m != nil)
		dom0 := ex.w.define("rangedom", visSort, sIte(sEq(m.T, "nil"), fmt.Sprintf("((as const (Array %s Bool)) false)", ks.Name), sSel(st.heap[ki[0].key], m.T)))
		var keyObj, valObj types.Object
		pick := func(e ast.Expr) types.Object {
			if id, ok := e.(*ast.Ident); ok && id.Name != "_" {
				if s.Tok == token.DEFINE {
					return fr.info.Defs[id]
				}
				return fr.info.Uses[id]
			}
			return nil
		}
		if s.Key != nil {
			keyObj = pick(s.Key)
		}
		if s.Value != nil {
			valObj = pick(s.Value)
		}
		if s.Tok == token.DEFINE {
			if keyObj != nil {
				ex.declare(st, keyObj, ex.zeroVal(substType(keyObj.Type(), fr.tsub)))
			}
			if valObj != nil {
				ex.declare(st, valObj, ex.zeroVal(substType(valObj.Type(), fr.tsub)))
			}
		}
		curKey := types.NewVar(s.Pos(), nil, fmt.Sprintf("$mk%d", ord), mt.Key())
		ex.declare(st, curKey, ex.zeroVal(mt.Key()))
		lp := &loopParts{stmt: s, label: label, body: s.Body}
		lp.written = []ast.Node{s.Body}
		lp.extraHavoc = []types.Object{visObj, keyObj, valObj, curKey}
		notNil := sNot(sEq(m.T, "nil"))
		lp.condFn = func(st *State, kt, kf func(*State)) {
			vis := st.frame.vars[visObj]
			// exit when every key of the entry domain has been visited
			allVisited := fmt.Sprintf("(forall ((kk %s)) (! (=> (select %s kk) (select %s kk)) :pattern ((select %s kk)) :pattern ((select %s kk))))", ks.Name, dom0, vis.T, vis.T, domSel)
			if sEq(m.T, "nil") == "(= nil nil)" {
				kf(st)
				return
			}
			st2 := st.fork()
			// continue: pick an arbitrary unvisited key
			kv := ex.freshVal(st, "mapkey", mt.Key())
			st.assume(notNil)
			st.assume(sSel(dom0, kv.T))
			st.assume(sNot(sSel(vis.T, kv.T)))
			st.frame.vars[curKey] = kv
			kt(st)
			st2.assume(sOr(sEq(m.T, "nil"), allVisited))
			kf(st2)
		}
		lp.preBody = func(st *State, k func(*State)) {
			kv := st.frame.vars[curKey]
			if keyObj != nil {
				_, owner, _ := st.frame.lookupVar(keyObj)
				owner.vars[keyObj] = kv
			}
			if valObj != nil {
				_, owner, _ := st.frame.lookupVar(valObj)
				v, _ := ex.mapLoad(st, m, kv)
				owner.vars[valObj] = v
			}
			k(st)
		}
		lp.postFn = func(st *State, k func(*State)) {
			vis := st.frame.vars[visObj]
			kv := st.frame.vars[curKey]
			st.frame.vars[visObj] = Val{T: ex.w.define("visited", visSort, sStore(vis.T, kv.T, "true")), S: visSort}
			k(st)
		}
		lp.autoInvs = func(st *State) []string {
			vis := st.frame.vars[visObj]
			return []string{fmt.Sprintf("(forall ((kk %s)) (! (=> (select %s kk) (select %s kk)) :pattern ((select %s kk))))", ks.Name, vis.T, dom0, vis.T)}
		}
		ex.loop(st, lp, k)
	})
	_ = fr
}

// ---------- dynamic types ----------

func (ex *Exec) dynTypeFn() string {
	n := sym("dyntype")
	ex.w.declFun(n, []*Sort{sRef}, ex.w.unSort("TypeTag"))
	return n
}

func (ex *Exec) typeTag(name string) string {
	n := sym("tag_" + name)
	ex.w.declConst(n, ex.w.unSort("TypeTag"))
	ex.w.noteDistinct("tag", n)
	return n
}

// ---------- user-declared uninterpreted spec functions ----------

type ufunInfo struct {
	decl *UFun
}

func (env *SpecEnv) ufun(name string) *ufunInfo {
	for _, ps := range env.ex.prog.AllSpecs {
		if uf, ok := ps.UFuns[name]; ok {
			return &ufunInfo{decl: uf}
		}
	}
	return nil
}

// ufunApply declares (per argument sorts) and applies a user-declared uninterpreted function.
func (env *SpecEnv) ufunApply(uf *UFun, args []Val) Val {
	ex := env.ex
	var as []*Sort
	var names []string
	for i, a := range args {
		s := a.S
		if i < len(uf.Params) && uf.Params[i] != "_" {
			if _, ps := env.tryResolveType(uf.Params[i]); ps != nil {
				s = ps
			}
		}
		as = append(as, s)
		names = append(names, strings.Trim(s.Name, "|"))
	}
	var rty types.Type
	var rs *Sort
	if strings.HasPrefix(uf.Result, "@") {
		// result has the sort of the given argument
		var idx int
		fmt.Sscanf(uf.Result[1:], "%d", &idx)
		if idx < 0 || idx >= len(args) {
			env.fail("ufun %s: bad result reference %s", uf.Name, uf.Result)
		}
		rty, rs = args[idx].Go, args[idx].S
	} else {
		rty, rs = env.resolveType(uf.Result)
	}
	n := sym("uf_" + uf.Name + "_" + strings.Join(names, "_"))
	ex.w.declFun(n, as, rs)
	var ts []string
	for _, a := range args {
		ts = append(ts, a.T)
	}
	return Val{T: sApp(n, ts...), S: rs, Go: rty}
}

func (ex *Exec) stdGlobal(pkg, name string) (Val, bool) {
	// globals of packages outside the repo mentioned in contracts (e.g. context.Canceled)
	for _, p := range ex.prog.Pkgs {
		for _, imp := range p.P.Imports {
			if imp.Name == pkg && imp.Types != nil {
				if obj := imp.Types.Scope().Lookup(name); obj != nil {
					if v, ok := obj.(*types.Var); ok {
						return ex.globalVar(nil, v), true
					}
					if c, ok := obj.(*types.Const); ok {
						if i, ok := constantInt(c.Val()); ok {
							return Val{T: sIntLit(i), S: sInt, Go: c.Type()}, true
						}
					}
				}
			}
		}
	}
	return Val{}, false
}

// extBuiltin: models of a few external functions that are simpler to give directly than as
// assume-ext contracts. Returns false when the function is not one of them.
func (ex *Exec) extBuiltin(st *State, key string, ct *callTarget, k func(*State, []Val)) bool {
	switch key {
	case "errors.New", "fmt.Errorf":
		ex.w.assumed["assume-ext "+key+" returns a fresh non-nil error"] = true
		r := ex.newRef(st, "err")
		k(st, []Val{{T: r, S: sRef, Go: ct.sig.Results().At(0).Type()}})
		return true
	case "fmt.Sprintf", "fmt.Sprint", "strconv.Itoa":
		ex.w.assumed["assume-ext "+key+" returns some string and has no effect"] = true
		k(st, []Val{ex.freshVal(st, "str", ct.sig.Results().At(0).Type())})
		return true
	}
	return false
}

func (ex *Exec) extWriteKeys(ws *writeSet, key string, info *types.Info, x *ast.CallExpr, tsub map[*types.TypeParam]types.Type) {
	switch key {
	case "errors.New", "fmt.Errorf":
		ws.keys["alloc"] = ex.w.setSort(sRef)
		return
	case "fmt.Sprintf", "fmt.Sprint", "strconv.Itoa":
		return
	}
	ws.all = true
}

func (ex *Exec) ifaceWriteKeys(ws *writeSet, info *types.Info, x *ast.CallExpr, tsub map[*types.TypeParam]types.Type) {
	fun := ast.Unparen(x.Fun)
	if f, ok := fun.(*ast.SelectorExpr); ok {
		if sel := info.Selections[f]; sel != nil && sel.Kind() == types.MethodVal {
			if tv, ok := info.Types[f.X]; ok {
				rt := substType(tv.Type, tsub)
				if n, ok := types.Unalias(rt).(*types.Named); ok {
					if _, isIface := n.Underlying().(*types.Interface); isIface {
						key := n.Obj().Pkg().Name() + "." + n.Obj().Name() + "." + sel.Obj().Name()
						if c, ok := ex.prog.Ext[key]; ok {
							m := sel.Obj().(*types.Func)
							ex.contractWriteKeysIface(ws, c, m, rt, tsub)
							return
						}
					}
				}
			}
		}
	}
	// call through a function value: assumed pure unless it is a declared callback
	if ex.callbackWriteKeys(ws, info, x, tsub) {
		return
	}
}

func (ex *Exec) contractWriteKeysIface(ws *writeSet, c *Contract, m *types.Func, recvT types.Type, tsub map[*types.TypeParam]types.Type) {
	defer func() {
		if r := recover(); r != nil {
			if _, ok := r.(specFail); ok {
				ws.all = true
				return
			}
			panic(r)
		}
	}()
	if !c.Pure {
		ws.keys["alloc"] = ex.w.setSort(sRef)
		ws.keys["arralloc"] = ex.w.setSort(sArrId)
	}
	sig := substType(m.Type(), tsub).(*types.Signature)
	ct := &callTarget{tsub: tsub, sig: sig}
	v := Val{T: "dummy_recv", S: sRef, Go: recvT}
	ct.recv = &v
	for i := 0; i < sig.Params().Len(); i++ {
		pt := sig.Params().At(i).Type()
		ct.args = append(ct.args, Val{T: fmt.Sprintf("dummy_%d", i), S: ex.w.sortOf(pt), Go: pt})
	}
	scratch := &State{heap: map[string]string{}}
	env := ex.contractEnv(scratch, c, nil, ct)
	env.old = scratch
	saveEntry := ex.entry
	ex.entry = nil
	defer func() { ex.entry = saveEntry }()
	for _, t := range env.evalModifies(c) {
		ws.keys[t.key] = t.sort
	}
}

// ---------- in-body annotations (//@ assert / assume in verif-tagged client functions) ----------

type bodyAnnot struct {
	kind string
	e    SExpr
	src  string
	pos  token.Pos
}

func (ex *Exec) annotationsBefore(st *State, s ast.Stmt) {
	fr := st.frame
	if fr.fi == nil || fr.closure != nil {
		return
	}
	as := ex.prog.annots(fr.fi)[s]
	if len(as) == 0 {
		return
	}
	env := ex.specEnvFor(st, fr.fi)
	if fr.fi != ex.top {
		env.old = nil
	}
	for k, v := range fr.ghost {
		env.bind[k] = v
	}
	defer ex.specRecover("annotation in " + fr.fi.Key)
	for _, a := range as {
		switch a.kind {
		case "assert":
			ex.oblige(st, "assert", nil, env.goal(a.e), "assert "+a.src, a.pos)
			st.assume(env.boolTerm(a.e))
		case "assume":
			ex.w.assumed["assume in "+fr.fi.FullName()+": "+a.src] = true
			st.assume(env.boolTerm(a.e))
		}
	}
}

func (p *Program) annots(fi *FuncInfo) map[ast.Stmt][]bodyAnnot {
	if fi.annots != nil {
		return fi.annots
	}
	fi.annots = map[ast.Stmt][]bodyAnnot{}
	var file *ast.File
	for _, f := range fi.Pkg.P.Syntax {
		if f.Pos() <= fi.Decl.Pos() && fi.Decl.End() <= f.End() {
			file = f
		}
	}
	if file == nil {
		return fi.annots
	}
	var stmts []ast.Stmt
	ast.Inspect(fi.Decl.Body, func(n ast.Node) bool {
		if s, ok := n.(ast.Stmt); ok {
			if _, isBlock := s.(*ast.BlockStmt); !isBlock {
				stmts = append(stmts, s)
			}
		}
		return true
	})
	for _, cg := range file.Comments {
		for _, c := range cg.List {
			if c.Pos() < fi.Decl.Body.Lbrace || c.Pos() > fi.Decl.Body.Rbrace {
				continue
			}
			t := c.Text
			var body string
			if strings.HasPrefix(t, "//@") {
				body = strings.TrimSpace(t[3:])
			} else if strings.HasPrefix(t, "// @") {
				body = strings.TrimSpace(t[4:])
			} else {
				continue
			}
			kind := ""
			for _, kw := range []string{"assert", "assume"} {
				if strings.HasPrefix(body, kw+" ") {
					kind = kw
					body = strings.TrimSpace(body[len(kw):])
				}
			}
			if kind == "" {
				continue
			}
			e, err := parseSpec(body)
			if err != nil {
				panic(unsupported("bad annotation in " + fi.Key + ": " + err.Error()))
			}
			// first statement starting after the comment
			var target ast.Stmt
			for _, s := range stmts {
				if s.Pos() > c.Pos() && (target == nil || s.Pos() < target.Pos()) {
					target = s
				}
			}
			if target == nil {
				panic(unsupported("annotation at end of " + fi.Key + " has no following statement (add a return)"))
			}
			fi.annots[target] = append(fi.annots[target], bodyAnnot{kind, e, body, c.Pos()})
		}
	}
	return fi.annots
}

// ---------- stubs filled in by later stages ----------

// callbackFor: a call `X.field(args)` through a function-typed struct field that has a
// `callback Struct.field(self, params...)` block.
func (ex *Exec) callbackFor(info *types.Info, x *ast.CallExpr, tsub map[*types.TypeParam]types.Type) (*Contract, *ast.SelectorExpr, *Package) {
	sel, ok := ast.Unparen(x.Fun).(*ast.SelectorExpr)
	if !ok {
		return nil, nil, nil
	}
	s := info.Selections[sel]
	if s == nil || s.Kind() != types.FieldVal {
		return nil, nil, nil
	}
	tv, ok := info.Types[sel.X]
	if !ok {
		return nil, nil, nil
	}
	n, _, _ := structOf(substType(tv.Type, tsub))
	if n == nil || n.Obj().Pkg() == nil {
		return nil, nil, nil
	}
	pk := ex.prog.Pkgs[n.Obj().Pkg().Path()]
	if pk == nil || pk.Spec == nil {
		return nil, nil, nil
	}
	c := pk.Spec.Callbacks[n.Obj().Name()+"."+sel.Sel.Name]
	if c == nil {
		return nil, nil, nil
	}
	return c, sel, pk
}

func (ex *Exec) callCallback(st *State, ct *callTarget, k func(*State, []Val)) bool {
	c, sel, pk := ex.callbackFor(st.frame.info, ct.call, st.frame.tsub)
	if c == nil {
		return false
	}
	if ct.sig.Results().Len() != 0 {
		panic(unsupported("callback with results: " + c.Key))
	}
	ex.w.assumed["callback "+pk.Short+"."+c.Key+": its effect on state visible to the library is exactly its callback contract (ghost model); real effects are confined to caller state the library never reads"] = true
	ex.safety(st, "safe.nilfunc", sNot(sEq(ct.fnVal.T, "nil")), "call of nil function", ct.call.Pos(), func(st *State) {
		ex.expr(st, sel.X, func(st *State, self Val) {
			n := 0
			env := &SpecEnv{ex: ex, st: st, bind: map[string]Val{}, pkg: pk, fi: st.frame.fi, qn: &n, tsub: st.frame.tsub}
			pre := st.snapshot()
			env.old = pre
			names := c.Params
			if len(names) > 0 {
				env.bind[names[0]] = self
				names = names[1:]
			}
			for i, nm := range names {
				if i < len(ct.args) {
					env.bind[nm] = ct.args[i]
				}
			}
			func() {
				defer ex.specRecover("callback " + c.Key)
				for _, g := range c.Ghosts {
					env.ghostUpdate(g)
				}
				for _, e := range c.Ensures {
					st.assume(env.boolTerm(e.E))
				}
			}()
			k(st, nil)
		})
	})
	return true
}

func (ex *Exec) callbackWriteKeys(ws *writeSet, info *types.Info, x *ast.CallExpr, tsub map[*types.TypeParam]types.Type) bool {
	c, sel, pk := ex.callbackFor(info, x, tsub)
	if c == nil {
		return false
	}
	defer func() {
		if r := recover(); r != nil {
			if _, ok := r.(specFail); ok {
				ws.all = true
				return
			}
			panic(r)
		}
	}()
	tv := info.Types[sel.X]
	st := substType(tv.Type, tsub)
	n := 0
	scratch := &State{heap: map[string]string{}}
	env := &SpecEnv{ex: ex, st: scratch, old: scratch, bind: map[string]Val{}, pkg: pk, qn: &n, tsub: tsub}
	if len(c.Params) > 0 {
		env.bind[c.Params[0]] = Val{T: "dummy_self", S: ex.w.sortOf(st), Go: st}
	}
	saveEntry := ex.entry
	ex.entry = nil
	defer func() { ex.entry = saveEntry }()
	for _, t := range env.evalModifies(c) {
		ws.keys[t.key] = t.sort
	}
	return true
}
// ---------- channels: sequential view ----------
//
// A channel c of element sort T has ghost state
//   chseq[c], chn[c], chpos[c]   the values receivers will get before seeing it closed, and the
//                                receive cursor (input view)
//   chsent[c], chns[c]           the values sent through it by the code under verification
//   chclosed[c]                  closed by the code under verification / observed closed
// Receive: pos < n yields (seq[pos], true); otherwise the receive can only complete when the
// channel is closed and yields (zero, false) -- the continuation assumes chclosed. Send appends to
// chsent (panics when chclosed). select chooses nondeterministically among the arms whose channel
// is not nil (and default). Blocking, buffering and other goroutines are not modelled.

type chanKeys struct {
	seq, n, pos, sent, ns, closed mapKeyInfo
}

func (ex *Exec) chanKeysOf(elem types.Type) chanKeys {
	es := ex.w.sortOf(elem)
	tag := strings.Trim(es.Name, "|")
	return chanKeys{
		seq:    mapKeyInfo{"chseq:" + tag, ex.w.mapGSort(sRef, ex.w.seqSort(es))},
		n:      mapKeyInfo{"chn:" + tag, ex.w.mapGSort(sRef, sInt)},
		pos:    mapKeyInfo{"chpos:" + tag, ex.w.mapGSort(sRef, sInt)},
		sent:   mapKeyInfo{"chsent:" + tag, ex.w.mapGSort(sRef, ex.w.seqSort(es))},
		ns:     mapKeyInfo{"chns:" + tag, ex.w.mapGSort(sRef, sInt)},
		closed: mapKeyInfo{"chclosed:" + tag, ex.w.mapGSort(sRef, sBool)},
	}
}

func chanElem(t types.Type) types.Type {
	if c, ok := types.Unalias(t).Underlying().(*types.Chan); ok {
		return c.Elem()
	}
	return nil
}

func (ex *Exec) chanWriteKeys(ws *writeSet) { ws.chanAll = true }

func (ex *Exec) chanWriteKeysT(ws *writeSet, t types.Type) {
	elem := chanElem(t)
	if elem == nil {
		ws.chanAll = true
		return
	}
	ck := ex.chanKeysOf(elem)
	for _, k := range []mapKeyInfo{ck.seq, ck.n, ck.pos, ck.sent, ck.ns, ck.closed} {
		ws.keys[k.key] = k.sort
	}
}

func (ex *Exec) chGet(st *State, k mapKeyInfo, c string) string {
	return sSel(ex.heapGet(st, k.key, k.sort), c)
}

func (ex *Exec) chSet(st *State, k mapKeyInfo, c, v string) {
	a := ex.heapGet(st, k.key, k.sort)
	ex.heapSet(st, k.key, k.sort, sStore(a, c, v))
}

// chanRecv: the continuation is only reached when the receive completes.
func (ex *Exec) chanRecv(st *State, c Val, k func(*State, Val, Val)) {
	elem := chanElem(c.Go)
	ck := ex.chanKeysOf(elem)
	es := ex.w.sortOf(elem)
	st.assume(sNot(sEq(c.T, "nil"))) // a receive from a nil channel never completes
	pos, n := ex.chGet(st, ck.pos, c.T), ex.chGet(st, ck.n, c.T)
	st.assume(fmt.Sprintf("(and (<= 0 %s) (<= %s %s))", pos, pos, n))
	ex.branch(st, fmt.Sprintf("(< %s %s)", pos, n), func(st *State) {
		item := Val{T: sSel(ex.chGet(st, ck.seq, c.T), pos), S: es, Go: elem}
		ex.noteIx(pos)
		ex.chSet(st, ck.pos, c.T, fmt.Sprintf("(+ %s 1)", pos))
		k(st, item, Val{T: "true", S: sBool, Go: types.Typ[types.Bool]})
	}, func(st *State) {
		st.assume(ex.chGet(st, ck.closed, c.T))
		k(st, Val{T: ex.w.zero(es), S: es, Go: elem}, Val{T: "false", S: sBool, Go: types.Typ[types.Bool]})
	})
}

func (ex *Exec) chanSend(st *State, c, v Val, pos token.Pos, k func(*State)) {
	elem := chanElem(c.Go)
	ck := ex.chanKeysOf(elem)
	st.assume(sNot(sEq(c.T, "nil"))) // a send on a nil channel never completes
	ex.safety(st, "safe.sendclosed", sNot(ex.chGet(st, ck.closed, c.T)), "send on closed channel", pos, func(st *State) {
		ns := ex.chGet(st, ck.ns, c.T)
		ex.noteIx(ns)
		ex.chSet(st, ck.sent, c.T, sStore(ex.chGet(st, ck.sent, c.T), ns, v.T))
		ex.chSet(st, ck.ns, c.T, fmt.Sprintf("(+ %s 1)", ns))
		k(st)
	})
}

func (ex *Exec) closeChan(st *State, c Val, pos token.Pos, k func(*State)) {
	elem := chanElem(c.Go)
	ck := ex.chanKeysOf(elem)
	ex.safety(st, "safe.close", sAnd(sNot(sEq(c.T, "nil")), sNot(ex.chGet(st, ck.closed, c.T))), "close of nil or closed channel", pos, func(st *State) {
		ex.chSet(st, ck.closed, c.T, "true")
		k(st)
	})
}

func (ex *Exec) makeChan(st *State, x *ast.CallExpr, ty types.Type, k func(*State, Val)) {
	elem := chanElem(ty)
	ck := ex.chanKeysOf(elem)
	finish := func(st *State) {
		r := ex.newRef(st, "chan")
		ex.chSet(st, ck.closed, r, "false")
		ex.chSet(st, ck.pos, r, "0")
		ex.chSet(st, ck.ns, r, "0")
		st.assume(fmt.Sprintf("(>= %s 0)", ex.chGet(st, ck.n, r)))
		k(st, Val{T: r, S: sRef, Go: ty})
	}
	if len(x.Args) > 1 {
		ex.expr(st, x.Args[1], func(st *State, sz Val) {
			ex.safety(st, "safe.make", fmt.Sprintf("(>= %s 0)", sz.T), "makechan: size out of range", x.Pos(), finish)
		})
		return
	}
	finish(st)
}

func (ex *Exec) recvExpr(st *State, x *ast.UnaryExpr, commaOk bool, k func(*State, []Val)) {
	fr := st.frame
	if tv, has := fr.info.Types[x]; has {
		if _, isTuple := tv.Type.(*types.Tuple); isTuple {
			commaOk = true
		}
	}
	ex.expr(st, x.X, func(st *State, c Val) {
		ex.chanRecv(st, c, func(st *State, v, ok Val) {
			if commaOk {
				k(st, []Val{v, ok})
			} else {
				k(st, []Val{v})
			}
		})
	})
}

func (ex *Exec) sendStmt(st *State, s *ast.SendStmt, k func(*State)) {
	ex.expr(st, s.Chan, func(st *State, c Val) {
		ex.expr(st, s.Value, func(st *State, v Val) {
			v = ex.convTo(v, chanElem(c.Go))
			ex.chanSend(st, c, v, s.Pos(), func(st *State) {
				ex.afterSend(st, s)
				k(st)
			})
		})
	})
}

// selectNotReady assumes that none of the receive arms of the select could proceed.
func (ex *Exec) selectNotReady(st *State, s *ast.SelectStmt, k func(*State)) {
	var chans []ast.Expr
	for _, cl := range s.Body.List {
		cc := cl.(*ast.CommClause)
		switch c := cc.Comm.(type) {
		case *ast.ExprStmt:
			if u, ok := ast.Unparen(c.X).(*ast.UnaryExpr); ok {
				chans = append(chans, u.X)
			}
		case *ast.AssignStmt:
			if u, ok := ast.Unparen(c.Rhs[0]).(*ast.UnaryExpr); ok {
				chans = append(chans, u.X)
			}
		}
	}
	var rec func(st *State, i int)
	rec = func(st *State, i int) {
		if i == len(chans) {
			k(st)
			return
		}
		ex.expr(st, chans[i], func(st *State, ch Val) {
			ck := ex.chanKeysOf(chanElem(ch.Go))
			ready := sOr(fmt.Sprintf("(< %s %s)", ex.chGet(st, ck.pos, ch.T), ex.chGet(st, ck.n, ch.T)), ex.chGet(st, ck.closed, ch.T))
			st.assume(sOr(sEq(ch.T, "nil"), sNot(ready)))
			rec(st, i+1)
		})
	}
	rec(st, 0)
}

// afterSend runs `after call send[k]:` anchored clauses (k-th send statement in source order).
func (ex *Exec) afterSend(st *State, s ast.Node) {
	if st.frame.fi != ex.top || (st.frame.closure != nil && !ex.closureTop) || ex.top.Spec == nil || len(ex.top.Spec.Anchors) == 0 {
		return
	}
	ord := 0
	ast.Inspect(ex.top.Decl.Body, func(n ast.Node) bool {
		switch n.(type) {
		case *ast.SendStmt:
			if n.Pos() < s.Pos() {
				ord++
			}
		}
		return true
	})
	ex.runAnchors(st, "after", "send", ord)
}

func (ex *Exec) rangeChan(st *State, s *ast.RangeStmt, label string, k func(*State)) {
	ex.expr(st, s.X, func(st *State, c Val) {
		fr := st.frame
		var keyObj types.Object
		if id, ok := s.Key.(*ast.Ident); ok && id.Name != "_" {
			if s.Tok == token.DEFINE {
				keyObj = fr.info.Defs[id]
			} else {
				keyObj = fr.info.Uses[id]
			}
		}
		if keyObj != nil && s.Tok == token.DEFINE {
			ex.declare(st, keyObj, ex.zeroVal(substType(keyObj.Type(), fr.tsub)))
		}
		okObj := types.NewVar(s.Pos(), nil, fmt.Sprintf("$chok%d", ex.loopOrdinal(fr, s)), types.Typ[types.Bool])
		ex.declare(st, okObj, Val{T: "true", S: sBool, Go: types.Typ[types.Bool]})
		lp := &loopParts{stmt: s, label: label, body: s.Body}
		lp.written = []ast.Node{s}
		lp.extraHavoc = []types.Object{keyObj}
		lp.chanRecvLoop = true
		lp.condFn = func(st *State, kt, kf func(*State)) {
			ex.chanRecv(st, c, func(st *State, v, ok Val) {
				if ok.T == "true" {
					if keyObj != nil {
						_, owner, _ := st.frame.lookupVar(keyObj)
						owner.vars[keyObj] = v
					}
					kt(st)
				} else {
					kf(st)
				}
			})
		}
		ex.loop(st, lp, k)
	})
}

func (ex *Exec) selectStmt(st *State, s *ast.SelectStmt, k func(*State)) {
	// Go evaluates the channel operands (and the values to send) of ALL arms, in source order, on
	// entering the select; only then is an arm chosen. Every arm is explored (nondeterministic
	// choice); arms on nil channels are never taken.
	n := len(s.Body.List)
	if n == 0 {
		return // select {} blocks forever
	}
	type armOps struct{ ch, v Val }
	var evalOps func(st *State, i int, ops []armOps)
	choose := func(st *State, ops []armOps) {
		done := func(st *State) {
			st.frame.loops = st.frame.loops[:len(st.frame.loops)-1]
			k(st)
		}
		for i, cl := range s.Body.List {
			cc := cl.(*ast.CommClause)
			cur := st
			if i < n-1 {
				cur = st.fork()
			}
			cur.frame.loops = append(cur.frame.loops, &loopCtx{onBreak: done})
			body := func(st *State) { ex.block(st, cc.Body, done) }
			switch c := cc.Comm.(type) {
			case nil:
				// default is taken only when no receive arm is ready (a receive is ready when a value
				// is pending or the channel is closed); readiness of send arms is not modelled
				for j, cl2 := range s.Body.List {
					switch cl2.(*ast.CommClause).Comm.(type) {
					case *ast.ExprStmt, *ast.AssignStmt:
						ch := ops[j].ch
						ck := ex.chanKeysOf(chanElem(ch.Go))
						ready := sOr(fmt.Sprintf("(< %s %s)", ex.chGet(cur, ck.pos, ch.T), ex.chGet(cur, ck.n, ch.T)), ex.chGet(cur, ck.closed, ch.T))
						cur.assume(sOr(sEq(ch.T, "nil"), sNot(ready)))
					}
				}
				body(cur)
			case *ast.SendStmt:
				ex.chanSend(cur, ops[i].ch, ops[i].v, c.Pos(), func(st *State) {
					ex.afterSend(st, c)
					body(st)
				})
			case *ast.ExprStmt:
				ex.chanRecv(cur, ops[i].ch, func(st *State, v, ok Val) { body(st) })
			case *ast.AssignStmt:
				ex.chanRecv(cur, ops[i].ch, func(st *State, v, ok Val) {
					vals := []Val{v, ok}
					var rec func(st *State, i int)
					rec = func(st *State, i int) {
						if i == len(c.Lhs) {
							body(st)
							return
						}
						lhs := c.Lhs[i]
						if id, isID := lhs.(*ast.Ident); isID {
							if id.Name == "_" {
								rec(st, i+1)
								return
							}
							if c.Tok == token.DEFINE {
								if obj := st.frame.info.Defs[id]; obj != nil {
									vv := vals[i]
									vv.Go = substType(obj.Type(), st.frame.tsub)
									ex.declare(st, obj, vv)
									rec(st, i+1)
									return
								}
							}
						}
						ex.assign(st, lhs, vals[i], func(st *State) { rec(st, i+1) })
					}
					rec(st, 0)
				})
			default:
				panic(unsupported("select communication clause"))
			}
		}
	}
	evalOps = func(st *State, i int, ops []armOps) {
		if i == n {
			choose(st, ops)
			return
		}
		next := func(st *State, o armOps) {
			evalOps(st, i+1, append(ops[:len(ops):len(ops)], o))
		}
		switch c := s.Body.List[i].(*ast.CommClause).Comm.(type) {
		case nil:
			next(st, armOps{})
		case *ast.SendStmt:
			ex.expr(st, c.Chan, func(st *State, ch Val) {
				ex.expr(st, c.Value, func(st *State, v Val) {
					next(st, armOps{ch: ch, v: ex.convTo(v, chanElem(ch.Go))})
				})
			})
		case *ast.ExprStmt:
			u := ast.Unparen(c.X).(*ast.UnaryExpr)
			ex.expr(st, u.X, func(st *State, ch Val) { next(st, armOps{ch: ch}) })
		case *ast.AssignStmt:
			u := ast.Unparen(c.Rhs[0]).(*ast.UnaryExpr)
			ex.expr(st, u.X, func(st *State, ch Val) { next(st, armOps{ch: ch}) })
		default:
			panic(unsupported("select communication clause"))
		}
	}
	evalOps(st, 0, nil)
}

// typeAssert: x.(T). Non-interface T: x must be the box of a T value (boxes are injective
// per sort); interface T: x must be non-nil (and implement T: an uninterpreted predicate for
// interfaces with methods); pointer T: the dynamic type tag must match.
func (ex *Exec) typeAssert(st *State, x *ast.TypeAssertExpr, commaOk bool, k func(*State, []Val)) {
	fr := st.frame
	if x.Type == nil {
		panic(unsupported("type switch"))
	}
	to := substType(fr.info.Types[x.Type].Type, fr.tsub)
	ex.expr(st, x.X, func(st *State, v Val) {
		ts := ex.w.sortOf(to)
		var ok, val string
		_, isTP := types.Unalias(to).(*types.TypeParam)
		if _, isIface := types.Unalias(to).Underlying().(*types.Interface); isIface && !isTP {
			ok = sNot(sEq(v.T, "nil"))
			if it := types.Unalias(to).Underlying().(*types.Interface); it.NumMethods() > 0 {
				fn := sym("implements_" + ex.w.typeString(to))
				ex.w.declFun(fn, []*Sort{sRef}, sBool)
				ok = sAnd(ok, sApp(fn, v.T))
			}
			val = v.T
		} else if ts.Kind == KRef {
			n, _, _ := structOf(to)
			ok = sNot(sEq(v.T, "nil"))
			if n != nil && n.Obj().Pkg() != nil {
				ok = sAnd(ok, sEq(sApp(ex.dynTypeFn(), v.T), ex.typeTag(n.Obj().Pkg().Name()+"."+n.Obj().Name())))
			}
			val = v.T
		} else {
			dummy := Val{T: "x", S: ts, Go: to}
			bx := ex.box(dummy) // declares box/unbox for the sort
			fnBox := strings.TrimSuffix(strings.TrimPrefix(bx, "("), " x)")
			un := strings.Replace(fnBox, "box_", "unbox_", 1)
			ok = sAnd(sNot(sEq(v.T, "nil")), sEq(v.T, sApp(fnBox, sApp(un, v.T))))
			val = sApp(un, v.T)
		}
		if commaOk {
			okC := ex.w.define("assertok", sBool, ok)
			k(st, []Val{{T: sIte(okC, val, ex.w.zero(ts)), S: ts, Go: to}, {T: okC, S: sBool, Go: types.Typ[types.Bool]}})
			return
		}
		ex.safety(st, "safe.assert", ok, "failed type assertion", x.Pos(), func(st *State) {
			k(st, []Val{{T: val, S: ts, Go: to}})
		})
	})
}
