// dir: iterator
// run: TestVerifStandinEqualRuns
// bound: Equal on every family of 0..3 sequences of length 0..2 over {0,1}; Runs on every int sequence of length 0..5 over {0,1,2} with same = equality, inner iterators drained - exhaustive within the bound, on the real code, NOT a proof
package iterator

import (
	"fmt"
	"testing"
)

// Bounded stand-in for Equal and Runs (property C07), which are not under contract (a variadic
// slice of protocol iterators; an iterator of iterators sharing one peekable source).
func TestVerifStandinEqualRuns(t *testing.T) {
	var seqs [][]int
	for n := 0; n <= 2; n++ {
		for m := 0; m < 1<<n; m++ {
			s := make([]int, n)
			for i := range s {
				s[i] = (m >> i) & 1
			}
			seqs = append(seqs, s)
		}
	}
	same := func(a, b []int) bool { return fmt.Sprint(a) == fmt.Sprint(b) }
	checkEq := func(in ...[]int) {
		want := true
		for i := 1; i < len(in); i++ {
			if !same(in[0], in[i]) {
				want = false
			}
		}
		its := make([]Iterator[int], len(in))
		for i := range in {
			its[i] = Slice(in[i])
		}
		if got := Equal(its...); got != want {
			t.Fatalf("Equal(%v) = %v, want %v", in, got, want)
		}
	}
	checkEq()
	for _, a := range seqs {
		checkEq(a)
		for _, b := range seqs {
			checkEq(a, b)
			for _, c := range seqs {
				checkEq(a, b, c)
			}
		}
	}
	var gen func(cur []int)
	gen = func(cur []int) {
		var want [][]int
		for i, x := range cur {
			if i == 0 || cur[i-1] != x {
				want = append(want, nil)
			}
			want[len(want)-1] = append(want[len(want)-1], x)
		}
		var got [][]int
		outer := Runs(Slice(cur), func(a, b int) bool { return a == b })
		for {
			inner, ok := outer.Next()
			if !ok {
				break
			}
			got = append(got, Collect(inner))
		}
		if fmt.Sprint(got) != fmt.Sprint(want) {
			t.Fatalf("Runs(%v) = %v, want %v", cur, got, want)
		}
		if len(cur) < 5 {
			for v := 0; v < 3; v++ {
				gen(append(append([]int(nil), cur...), v))
			}
		}
	}
	gen(nil)
}
