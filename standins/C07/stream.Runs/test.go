// dir: stream
// run: TestVerifStandinRuns
// bound: every int sequence of length 0..5 over {0,1,2} with same = equality, inner streams drained - exhaustive within the bound, on the real code, NOT a proof
package stream

import (
	"context"
	"fmt"
	"testing"

	"github.com/bradenaw/juniper/iterator"
)

// Bounded stand-in for stream.Runs (property C07): a stream of streams over one peekable source,
// not under contract.
func TestVerifStandinRuns(t *testing.T) {
	ctx := context.Background()
	var gen func(cur []int)
	gen = func(cur []int) {
		var want [][]int
		for i, x := range cur {
			if i == 0 || cur[i-1] != x {
				want = append(want, nil)
			}
			want[len(want)-1] = append(want[len(want)-1], x)
		}
		var got [][]int
		outer := Runs(FromIterator(iterator.Slice(cur)), func(a, b int) bool { return a == b })
		for {
			inner, err := outer.Next(ctx)
			if err == End {
				break
			}
			if err != nil {
				t.Fatalf("Runs(%v): unexpected error %v", cur, err)
			}
			items, err := Collect(ctx, inner)
			if err != nil {
				t.Fatalf("Runs(%v): inner error %v", cur, err)
			}
			got = append(got, items)
		}
		outer.Close()
		if fmt.Sprint(got) != fmt.Sprint(want) {
			t.Fatalf("stream.Runs(%v) = %v, want %v", cur, got, want)
		}
		if len(cur) < 5 {
			for v := 0; v < 3; v++ {
				gen(append(append([]int(nil), cur...), v))
			}
		}
	}
	gen(nil)
}
