// dir: stream
// run: TestVerifStandinRunsFaults
// bound: every int sequence of length 0..5 over {0,1} x every position of one transient source fault (or none) x three consumer policies (read 0, 1 or all items of each run before asking for the next run), retrying every failed call - exhaustive within the bound, on the real code, NOT a proof
package stream

import (
	"context"
	"errors"
	"fmt"
	"testing"
)

type verifFlaky struct {
	items  []int
	i      int
	failAt int
	failed bool
}

func (s *verifFlaky) Next(ctx context.Context) (int, error) {
	if s.i == s.failAt && !s.failed {
		s.failed = true
		return 0, errors.New("transient")
	}
	if s.i >= len(s.items) {
		return 0, End
	}
	item := s.items[s.i]
	s.i++
	return item, nil
}

func (s *verifFlaky) Close() {}

// Bounded stand-in for stream.Runs under a transient source fault (property C08: the error comes
// out, and a retry neither loses nor duplicates items); stream.Runs is not under contract.
func TestVerifStandinRunsFaults(t *testing.T) {
	ctx := context.Background()
	var gen func(cur []int)
	gen = func(cur []int) {
		var wantHeads []int
		var wantAll [][]int
		for i, x := range cur {
			if i == 0 || cur[i-1] != x {
				wantHeads = append(wantHeads, x)
				wantAll = append(wantAll, nil)
			}
			wantAll[len(wantAll)-1] = append(wantAll[len(wantAll)-1], x)
		}
		for failAt := -1; failAt <= len(cur); failAt++ {
			for policy := 0; policy < 3; policy++ {
				src := &verifFlaky{items: cur, failAt: failAt}
				runs := Runs[int](src, func(a, b int) bool { return a == b })
				nRuns := 0
				var heads []int
				var all [][]int
				errs := 0
				for {
					run, err := runs.Next(ctx)
					if err == End {
						break
					} else if err != nil {
						errs++
						if errs > 3 {
							t.Fatalf("Runs(%v) failAt=%d policy=%d: the one transient fault was reported %d times", cur, failAt, policy, errs)
						}
						continue
					}
					nRuns++
					var items []int
					for policy > 0 {
						item, err := run.Next(ctx)
						if err == End {
							break
						} else if err != nil {
							errs++
							if errs > 3 {
								t.Fatalf("Runs(%v) failAt=%d policy=%d: the one transient fault was reported %d times", cur, failAt, policy, errs)
							}
							continue
						}
						items = append(items, item)
						if policy == 1 {
							break
						}
					}
					if len(items) > 0 {
						heads = append(heads, items[0])
					}
					all = append(all, items)
				}
				runs.Close()
				if nRuns != len(wantHeads) {
					t.Fatalf("Runs(%v) failAt=%d policy=%d: %d runs, want %d", cur, failAt, policy, nRuns, len(wantHeads))
				}
				if policy >= 1 && fmt.Sprint(heads) != fmt.Sprint(wantHeads) {
					t.Fatalf("Runs(%v) failAt=%d policy=%d: run heads %v, want %v", cur, failAt, policy, heads, wantHeads)
				}
				if policy == 2 && fmt.Sprint(all) != fmt.Sprint(wantAll) {
					t.Fatalf("Runs(%v) failAt=%d policy=%d: runs %v, want %v", cur, failAt, policy, all, wantAll)
				}
			}
		}
		if len(cur) < 5 {
			for v := 0; v < 2; v++ {
				gen(append(append([]int(nil), cur...), v))
			}
		}
	}
	gen(nil)
}
