// dir: xerrors
// run: TestVerifStandinWithStack
// bound: 5 error chains (nil; a plain error; an error carrying a stack; a hand-built withStack around a stacked error; fmt.Errorf %w around a stacked error) - a bounded run of the real code, NOT a proof
package xerrors

import (
	"errors"
	"fmt"
	"testing"
)

// Bounded stand-in for the WithStack sentence of property C19 ("nil-preserving, idempotent and
// transparent to Unwrap and Is"): errors.Is walks the chain through reflection and interface
// assertions, which the contract verifier does not model.
func TestVerifStandinWithStack(t *testing.T) {
	if WithStack(nil) != nil {
		t.Fatalf("WithStack(nil) != nil")
	}
	e := errors.New("boom")
	w := WithStack(e)
	if ws, ok := w.(withStack); !ok || !sameErr(ws.inner, e) {
		t.Fatalf("WithStack(plain) does not wrap the error it was given")
	}
	if errors.Unwrap(w) != e || !errors.Is(w, e) {
		t.Fatalf("WithStack is not transparent to Unwrap/Is")
	}
	stacked := []error{w, fmt.Errorf("context: %w", w), withStack{inner: w, pc: nil}}
	for i, c := range stacked {
		r := WithStack(c)
		if !sameErr(r, c) {
			t.Fatalf("chain %d: WithStack(err) did not return err although err already carries a stack (not idempotent): %d stack(s) before, %d after", i, countStacks(c), countStacks(r))
		}
	}
}

// sameErr compares two errors without ever comparing withStack values with == (they hold a slice).
func sameErr(a, b error) bool {
	as, ok1 := a.(withStack)
	bs, ok2 := b.(withStack)
	if ok1 != ok2 {
		return false
	}
	if ok1 {
		return len(as.pc) == len(bs.pc) && sameErr(as.inner, bs.inner)
	}
	return a == b
}

func countStacks(err error) int {
	n := 0
	for err != nil {
		if _, ok := err.(withStack); ok {
			n++
		}
		err = errors.Unwrap(err)
	}
	return n
}
