// dir: xmaps
// run: TestVerifStandinIntersects
// bound: every family of 0..3 maps drawn from nil and the 8 subsets of {0,1,2} (1 + 9 + 81 + 729 families) - exhaustive within the bound, on the real code, NOT a proof
package xmaps

import "testing"

// Bounded stand-in for Intersects/Intersection (property C19): they sort a clone of their argument
// through package sort, which the contract verifier does not model.
func TestVerifStandinIntersects(t *testing.T) {
	var subsets []Set[int]
	subsets = append(subsets, nil)
	for m := 0; m < 8; m++ {
		s := Set[int]{}
		for b := 0; b < 3; b++ {
			if m&(1<<b) != 0 {
				s[b] = struct{}{}
			}
		}
		subsets = append(subsets, s)
	}
	check := func(sets ...Set[int]) {
		want := map[int]bool{}
		if len(sets) > 0 {
			for k := 0; k < 3; k++ {
				all := true
				for _, s := range sets {
					if _, ok := s[k]; !ok {
						all = false
					}
				}
				if all {
					want[k] = true
				}
			}
		}
		got := Intersection(sets...)
		if len(got) != len(want) {
			t.Fatalf("Intersection(%v) = %v, want keys %v", sets, got, want)
		}
		for k := range want {
			if _, ok := got[k]; !ok {
				t.Fatalf("Intersection(%v) = %v, want keys %v", sets, got, want)
			}
		}
		if Intersects(sets...) != (len(want) > 0) {
			t.Fatalf("Intersects(%v) = %v, but the common elements are %v", sets, Intersects(sets...), want)
		}
	}
	check()
	for _, a := range subsets {
		check(a)
		for _, b := range subsets {
			check(a, b)
			for _, c := range subsets {
				check(a, b, c)
			}
		}
	}
}
