// dir: xsort
// run: TestVerifStandinSliceWrappers
// bound: Slice, SliceStable, SliceIsSorted on every sequence of length 0..6 over keys {0,1,2} and on 36 fixed sequences of length 13..64 with many ties (keys i*7%5), each element tagged with its original position to observe stability - on the real code, NOT a proof
package xsort

import (
	"fmt"
	"testing"
)

type verifKP struct{ k, pos int }

// Bounded stand-in for the sort wrappers (property C19): they hand a boxed slice to package sort,
// which the contract verifier does not model.
func TestVerifStandinSliceWrappers(t *testing.T) {
	less := func(a, b verifKP) bool { return a.k < b.k }
	check := func(keys []int) {
		mk := func() []verifKP {
			s := make([]verifKP, len(keys))
			for i, k := range keys {
				s[i] = verifKP{k, i}
			}
			return s
		}
		sortedKeys := true
		for i := 1; i < len(keys); i++ {
			if keys[i-1] > keys[i] {
				sortedKeys = false
			}
		}
		if got := SliceIsSorted(mk(), less); got != sortedKeys {
			t.Fatalf("SliceIsSorted(%v) = %v", keys, got)
		}
		for name, f := range map[string]func([]verifKP, Less[verifKP]){"Slice": Slice[verifKP], "SliceStable": SliceStable[verifKP]} {
			s := mk()
			f(s, less)
			seen := map[int]bool{}
			for i, e := range s {
				if e.pos < 0 || e.pos >= len(keys) || keys[e.pos] != e.k || seen[e.pos] {
					t.Fatalf("%s(%v) = %v is not a permutation of its input", name, keys, s)
				}
				seen[e.pos] = true
				if i > 0 && s[i-1].k > e.k {
					t.Fatalf("%s(%v) = %v is not sorted", name, keys, s)
				}
				if name == "SliceStable" && i > 0 && s[i-1].k == e.k && s[i-1].pos > e.pos {
					t.Fatalf("SliceStable(%v) = %v reordered equal elements (positions %d and %d)", keys, s, s[i-1].pos, e.pos)
				}
			}
		}
	}
	var gen func(cur []int)
	gen = func(cur []int) {
		check(cur)
		if len(cur) < 6 {
			for v := 0; v < 3; v++ {
				gen(append(append([]int(nil), cur...), v))
			}
		}
	}
	gen(nil)
	for n := 13; n <= 64; n += 3 {
		for _, mul := range []int{7, 3} {
			keys := make([]int, n)
			for i := range keys {
				keys[i] = (i*mul + n) % 5
			}
			check(keys)
		}
	}
	_ = fmt.Sprint
}
