// dir: xsort
// run: TestVerifStandinMergeSlices
// bound: every family of 0..3 ascending int slices (the 35 slices of length 0..3 over {0..3}) with at most 4 items in total x 5 shapes of the out argument (nil, empty, empty with spare capacity, non-empty with enough capacity, non-empty too small) - exhaustive within the bound, on the real code, NOT a proof
package xsort

import (
	"sort"
	"testing"
)

// Bounded stand-in for MergeSlices (property C19): heap, merge iterator and slice growth interact;
// the combination is not under contract.
func TestVerifStandinMergeSlices(t *testing.T) {
	var sorted [][]int
	var gen func(cur []int, min int)
	gen = func(cur []int, min int) {
		sorted = append(sorted, append([]int(nil), cur...))
		if len(cur) == 3 {
			return
		}
		for v := min; v <= 3; v++ {
			gen(append(cur, v), v)
		}
	}
	gen(nil, 0)
	less := func(a, b int) bool { return a < b }
	outs := func(n int) [][]int {
		return [][]int{nil, {}, make([]int, 0, n+2), append(make([]int, 0, n+4), 9, 9), {9}}
	}
	check := func(in ...[]int) {
		var want []int
		for _, s := range in {
			want = append(want, s...)
		}
		sort.Ints(want)
		for oi, out := range outs(len(want)) {
			got := MergeSlices(less, out, in...)
			if len(got) != len(want) {
				t.Fatalf("MergeSlices(out shape %d, %v) = %v, want %v", oi, in, got, want)
			}
			for i := range want {
				if got[i] != want[i] {
					t.Fatalf("MergeSlices(out shape %d, %v) = %v, want %v", oi, in, got, want)
				}
			}
		}
	}
	check()
	for _, a := range sorted {
		check(a)
		for _, b := range sorted {
			if len(a)+len(b) > 4 {
				continue
			}
			check(a, b)
			for _, c := range sorted {
				if len(a)+len(b)+len(c) > 4 {
					continue
				}
				check(a, b, c)
			}
		}
	}
}
