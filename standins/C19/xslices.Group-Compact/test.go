// dir: xslices
// run: TestVerifStandinGroupCompact
// bound: every int slice of length 0..5 over {0,1,2}: Group by parity, Compact/CompactInPlace/CompactFunc/CompactInPlaceFunc - exhaustive within the bound, on the real code, NOT a proof
package xslices

import (
	"fmt"
	"testing"
)

// Bounded stand-in for Group and the Compact family (property C19): Group builds a map of appended
// slices, the Compact functions delegate to package slices; neither is under contract.
func TestVerifStandinGroupCompact(t *testing.T) {
	var gen func(cur []int)
	gen = func(cur []int) {
		// Group
		want := map[int][]int{}
		for _, x := range cur {
			want[x%2] = append(want[x%2], x)
		}
		got := Group(append([]int(nil), cur...), func(x int) int { return x % 2 })
		if fmt.Sprint(got) != fmt.Sprint(want) {
			t.Fatalf("Group(%v, parity) = %v, want %v", cur, got, want)
		}
		// Compact family
		var wantC []int
		for i, x := range cur {
			if i == 0 || cur[i-1] != x {
				wantC = append(wantC, x)
			}
		}
		eq := func(a, b int) bool { return a == b }
		orig := append([]int(nil), cur...)
		if g := Compact(orig); fmt.Sprint(g) != fmt.Sprint(wantC) && !(len(g) == 0 && len(wantC) == 0) {
			t.Fatalf("Compact(%v) = %v, want %v", cur, g, wantC)
		}
		if g := CompactFunc(orig, eq); fmt.Sprint(g) != fmt.Sprint(wantC) && !(len(g) == 0 && len(wantC) == 0) {
			t.Fatalf("CompactFunc(%v) = %v, want %v", cur, g, wantC)
		}
		if fmt.Sprint(orig) != fmt.Sprint(cur) {
			t.Fatalf("Compact/CompactFunc modified their argument: %v -> %v", cur, orig)
		}
		if g := CompactInPlace(append([]int(nil), cur...)); fmt.Sprint(g) != fmt.Sprint(wantC) && !(len(g) == 0 && len(wantC) == 0) {
			t.Fatalf("CompactInPlace(%v) = %v, want %v", cur, g, wantC)
		}
		if g := CompactInPlaceFunc(append([]int(nil), cur...), eq); fmt.Sprint(g) != fmt.Sprint(wantC) && !(len(g) == 0 && len(wantC) == 0) {
			t.Fatalf("CompactInPlaceFunc(%v) = %v, want %v", cur, g, wantC)
		}
		if len(cur) < 5 {
			for v := 0; v < 3; v++ {
				gen(append(append([]int(nil), cur...), v))
			}
		}
	}
	gen(nil)
}
