// dir: xmaps
// run: TestVerifStandinReverse
// bound: every map from a subset of {0,1,2} to {0,1} (27 maps) - exhaustive within the bound, on the real code, NOT a proof
package xmaps

import (
	"sort"
	"testing"
)

// Bounded stand-in for Reverse (property C19): a map of appended slices, not under contract.
func TestVerifStandinReverse(t *testing.T) {
	for code := 0; code < 27; code++ {
		m := map[int]int{}
		c := code
		for k := 0; k < 3; k++ {
			if d := c % 3; d < 2 {
				m[k] = d
			}
			c /= 3
		}
		got := Reverse(m)
		n := 0
		for v, ks := range got {
			sort.Ints(ks)
			for i, k := range ks {
				if mv, ok := m[k]; !ok || mv != v || (i > 0 && ks[i-1] == k) {
					t.Fatalf("Reverse(%v) = %v: key %d listed under value %d", m, got, k, v)
				}
				n++
			}
			if len(ks) == 0 {
				t.Fatalf("Reverse(%v) = %v: empty key list", m, got)
			}
		}
		if n != len(m) {
			t.Fatalf("Reverse(%v) = %v lists %d keys, want %d", m, got, n, len(m))
		}
	}
}
